package main

import (
	"go/token"
	"go/types"

	"golang.org/x/tools/go/ssa"
)

func init() {
	register(&PropDef{
		ID:    "C18",
		Pkgs:  []string{"grpc"},
		Claim: "Decides the structural part: every 'retry' outcome of the retry decision is unreachable once the stream is finished, committed or the pick was a drop; the transparent outcomes require 'no stream was created and transparent retry allowed' resp. 'first attempt and the server did not process the stream'; the policy outcome additionally requires retries enabled, a trailers-only response, a policy whose retryable set contains the code, the throttler's consent, attempts+1 < maxAttempts, and the backoff timer firing (the only place the retry counter grows); maxAttempts is capped by the channel maximum; the replay buffer is appended only by the buffering function (never after commit, committing instead when the size limit is exceeded) and cleared only by commit; each operation run under the retry wrapper is re-run on the new attempt whenever the attempt changed while it ran, and is buffered or commits on success.",
		NotDecided:  []string{"that a replay transmits byte-identical messages (value of captured closures)", "counts of attempts over histories", "hedging (not implemented)"},
		Assumptions: []string{"the transport reports Unprocessed()/TrailersOnly() truthfully (decided under C14/C10)"},
		Technique:   "static analysis: refusing-arm unreachability and dominating guards over go/ssa branch facts at each return of the decision function, who-may-write, closure-argument inspection",
		Run:         c18,
	})
}

func c18(c *Ctx) {
	cs := func(f string) *types.Var { return c.field("grpc", "clientStream", f) }
	at := func(f string) *types.Var { return c.field("grpc", "csAttempt", f) }
	c.Ob("should-retry", "R2", "guards of the three retry outcomes of the retry decision function", 20, func() {
		f := c.fn("grpc", "csAttempt.shouldRetry")
		var transparent, policy []*ssa.Return
		for _, r := range returnsOf(f) {
			if r.Block() == f.Recover || !ConstNil(r.Results[1]) {
				continue
			}
			if ConstBool(true)(r.Results[0]) {
				transparent = append(transparent, r)
			} else {
				policy = append(policy, r)
			}
		}
		c.Expect(len(transparent) == 2 && len(policy) == 1, nil, f, "three-retry-outcomes", "expected two transparent-retry returns and one policy-retry return")
		ts := FieldLoad(at("transportStream"))
		for _, r := range append(append([]*ssa.Return{}, transparent...), policy...) {
			c.Unreachable(r, "finished-never-retries", Truth(FieldLoad(cs("finished")), true))
			c.Unreachable(r, "committed-never-retries", Truth(FieldLoad(cs("committed")), true))
			c.Unreachable(r, "drop-never-retries", Truth(FieldLoad(at("drop")), true))
		}
		unproc := CallRes(Callee(tr, "ClientStream.Unprocessed"), 0)
		nA, nB := 0, 0
		for _, r := range transparent {
			if c.HasFact(r, Truth(FieldLoad(at("allowTransparentRetry")), true)) {
				nA++
				c.MustFact(r, "no-stream-was-created", IsNil(ts))
			} else {
				nB++
				c.MustFact(r, "first-attempt", Truth(FieldLoad(cs("firstAttempt")), true))
				c.MustFact(r, "server-did-not-process", Truth(SetWhen(NotNil(ts)), true))
				c.ValueIs(r, unprocOrigin(r, f), "unprocessed-from-transport", unproc)
			}
		}
		c.Expect(nA == 1 && nB == 1, nil, f, "two-kinds-of-transparent-retry", "the two transparent-retry returns are not (no stream & allowed) and (first attempt & unprocessed)")
		for _, r := range policy {
			fDis := c.field("grpc", "dialOptions", "disableRetry")
			c.MustFact(r, "retries-enabled", Truth(FieldLoad(fDis), false))
			c.Unreachable(r, "response-headers-received-never-retries", Truth(CallRes(Callee(tr, "ClientStream.TrailersOnly"), 0), false))
			fRP := c.field("internal/serviceconfig", "MethodConfig", "RetryPolicy")
			fCodes := c.field("internal/serviceconfig", "RetryPolicy", "RetryableStatusCodes")
			fMax := c.field("internal/serviceconfig", "RetryPolicy", "MaxAttempts")
			c.MustFact(r, "policy-present", NotNil(FieldLoad(fRP)))
			c.MustFact(r, "code-is-retryable", Truth(LookupOf(FieldLoad(fCodes), AnyV), true))
			c.MustFact(r, "throttler-consents", Truth(CallRes(Callee("grpc", "retryThrottler.throttle"), 0), false))
			c.MustFact(r, "attempts-below-max", Cmp(BinOpV(token.ADD, FieldLoad(cs("numRetries")), ConstInt(1)), token.LSS, FieldLoad(fMax)))
			// the code looked up is the attempt's status code (or the error's code when no stream exists)
			for _, in := range instrsWhere(f, func(in ssa.Instruction) bool { l, ok := in.(*ssa.Lookup); return ok && FieldLoad(fCodes)(l.X) }) {
				c.ValueIs(in, in.(*ssa.Lookup).Index, "code-from-status", AllOrigins(OrV(CallRes(Callee("internal/status", "Status.Code"), 0), CallRes(Callee("status", "Code"), 0))))
			}
			// numRetries++ exactly on this arm
			inc := one(c, "numRetries increment", storesToField(f, cs("numRetries")))
			c.ValueIs(inc, inc.Val, "increment-by-one", BinOpV(token.ADD, FieldLoad(cs("numRetries")), ConstInt(1)))
			c.Dominates(inc, r, "counted-before-retrying")
			c.Expect(together(inc, r), inc, f, "counted-only-on-timer-arm", "the retry counter is incremented outside the timer arm")
			// pushback: malformed / negative / multiple values never retry, and count as throttle failures
			atoiErr := CallRes(CalleeX("strconv", "Atoi"), 1)
			c.Unreachable(r, "malformed-pushback-never-retries", NotNil(atoiErr))
			c.Unreachable(r, "negative-pushback-never-retries", CmpInt(CallRes(CalleeX("strconv", "Atoi"), 0), token.LSS, 0))
			c.Unreachable(r, "multi-valued-pushback-never-retries", CmpInt(LenOf(AnyV), token.GTR, 1))
		}
		c.WhoMayMutate("numRetries", cs("numRetries"), c.scope("grpc"), "grpc.csAttempt.shouldRetry")
		c.WhoMayMutate("allowTransparentRetry", at("allowTransparentRetry"), c.scope("grpc"), "grpc.csAttempt.newStream")
		ns := c.fn("grpc", "csAttempt.newStream")
		fATR := c.field(tr, "NewStreamError", "AllowTransparentRetry")
		for _, st := range storesToField(ns, at("allowTransparentRetry")) {
			c.ValueIs(st, st.Val, "transparent-retry-set-true", ConstBool(true))
			c.MustFact(st, "transparent-retry-only-if-transport-allows", Truth(FieldLoad(fATR), true))
		}
	})
	c.Ob("max-attempts", "R5", "the converted retry policy's maxAttempts is bounded by the channel-wide maximum and by the configured value; invalid policies are rejected first", 3, func() {
		f := c.fn("grpc", "convertRetryPolicy")
		fMax := c.field("internal/serviceconfig", "RetryPolicy", "MaxAttempts")
		fJ := c.field("grpc", "jsonRetryPolicy", "MaxAttempts")
		st := one(c, "store of MaxAttempts", storesToField(f, fMax))
		c.nontrivial("ub-maxattempts")
		c.Expect(boundedBy(st.Val, ParamV("maxAttempts")), st, f, "capped-by-channel-max", "cannot derive MaxAttempts <= channel maximum")
		c.Expect(boundedBy(st.Val, FieldLoad(fJ)), st, f, "capped-by-configured", "cannot derive MaxAttempts <= configured maxAttempts")
		c.MustFact(st, "validated-first", Truth(CallRes(Callee("grpc", "isValidRetryPolicy"), 0), true))
	})
	c.Ob("replay-buffer", "R1", "the replay buffer is appended only by the buffering function, on the not-committed, within-size-limit arm (exceeding the limit commits instead); it is cleared only by commit; committed is set only by commit", 6, func() {
		fRB := cs("replayBuffer")
		c.WhoMayMutate("replayBuffer", fRB, c.scope("grpc"), "grpc.clientStream.bufferForRetryLocked", "grpc.clientStream.commitAttemptLocked")
		b := c.fn("grpc", "clientStream.bufferForRetryLocked")
		ap := one(c, "append to replayBuffer", storesToField(b, fRB))
		c.MustFact(ap, "not-committed", Truth(FieldLoad(cs("committed")), false))
		fSz := cs("replayBufferSize")
		fLim := c.field("grpc", "callInfo", "maxRetryRPCBufferSize")
		c.MustFact(ap, "within-size-limit", Cmp(FieldLoad(fSz), token.LEQ, FieldLoad(fLim)))
		arm := blocksWhere(b, Cmp(FieldLoad(fSz), token.GTR, FieldLoad(fLim)))
		found := false
		for _, bl := range arm {
			for _, in := range bl.Instrs {
				if isCallTo(Callee("grpc", "clientStream.commitAttemptLocked"))(in) {
					found = true
				}
			}
		}
		c.Expect(found, nil, b, "over-limit-commits", "exceeding the retry buffer limit does not commit the attempt")
		sz := one(c, "replayBufferSize update", storesToField(b, fSz))
		c.ValueIs(sz, sz.Val, "size-accumulates", BinOpV(token.ADD, FieldLoad(fSz), ParamV("sz")))
		cm := c.fn("grpc", "clientStream.commitAttemptLocked")
		clr := one(c, "replayBuffer clear in commit", storesToField(cm, fRB))
		c.ValueIs(clr, clr.Val, "cleared-to-nil", ConstNil)
		// replay uses the buffer in order
		rp := c.fn("grpc", "clientStream.replayBufferLocked")
		c.Expect(len(readsOf(rp, fRB)) >= 1, nil, rp, "replay-reads-buffer", "replayBufferLocked does not read the replay buffer")
	})
	c.Ob("ops-via-withRetry", "R8", "every use of the retry wrapper passes an onSuccess that either buffers the very same operation for replay or commits the attempt; after the operation ran unlocked, the wrapper re-runs it on the new attempt whenever the attempt changed, whatever the operation returned", 8, func() {
		wr := Callee("grpc", "clientStream.withRetry")
		n := 0
		for _, f := range c.scope("grpc") {
			for _, ci := range callsIn(f, wr) {
				n++
				op, ons := ci.Common().Args[1], ci.Common().Args[2]
				if cl := funcOfValue(ons); cl != nil && cl.Parent() != nil {
					bs := callsIn(cl, Callee("grpc", "clientStream.bufferForRetryLocked"))
					if c.Expect(len(bs) == 1, ci, f, "onSuccess-buffers", "the onSuccess closure neither buffers the op nor is the commit function") {
						c.Expect(sameValue(bs[0].Common().Args[2], op) || sameCapturedVal(bs[0].Common().Args[2], op, ons), ci, f, "buffers-the-same-op", "the operation buffered for replay is not the operation that was run")
					}
				} else {
					fn := funcOfValue(ons)
					c.Expect(fn != nil && shortName(fn) == "grpc.clientStream.commitAttemptLocked" || isBoundMethod(ons, "commitAttemptLocked"), ci, f, "onSuccess-commits", "onSuccess is neither a buffering closure nor commitAttemptLocked")
				}
			}
		}
		c.Expect(n == 5, nil, nil, "five-wrapped-ops", "expected five operations run under the retry wrapper (stream creation, Header, SendMsg, RecvMsg, CloseSend)")
		f := c.fn("grpc", "clientStream.withRetry")
		same := Cmp(AnyV, token.EQL, FieldLoad(cs("attempt")))
		for _, ci := range callsIn(f, ValueCall(ParamV("onSuccess"))) {
			c.MustFact(ci, "success-only-if-attempt-unchanged", same)
		}
		for _, ci := range callsIn(f, Callee("grpc", "clientStream.retryLocked")) {
			c.MustFact(ci, "retry-only-if-attempt-unchanged", same)
		}
		// committed fast path runs the op on the committed attempt
		for _, ci := range callsIn(f, ValueCall(ParamV("op"))) {
			if c.HasFact(ci, Truth(FieldLoad(cs("committed")), true)) {
				c.ArgIs(ci, 0, "committed-op-on-current-attempt", FieldLoad(cs("attempt")))
			}
		}
	})
}

// unprocOrigin returns the non-constant origin of the `unprocessed` flag tested before r.
func unprocOrigin(r *ssa.Return, f *ssa.Function) ssa.Value {
	for _, fct := range FactsAt(r) {
		if fct.Kind == "truth" && fct.Pol {
			if p, ok := fct.X.(*ssa.Phi); ok {
				for _, e := range p.Edges {
					if !isZeroConst(e) {
						return e
					}
				}
			}
		}
	}
	return r.Results[0]
}

func isBoundMethod(v ssa.Value, name string) bool {
	mc, ok := strip(v).(*ssa.MakeClosure)
	if !ok {
		return false
	}
	fn := mc.Fn.(*ssa.Function)
	return fn.Synthetic != "" && fn.Object() != nil && fn.Object().Name() == name
}

// sameCapturedVal: a (inside closure cl) is a load of a free variable bound to the cell b was loaded from.
func sameCapturedVal(a, b ssa.Value, cl ssa.Value) bool {
	mc, ok := strip(cl).(*ssa.MakeClosure)
	if !ok {
		return false
	}
	ua, ok := strip(a).(*ssa.UnOp)
	if !ok {
		return false
	}
	fv, ok := ua.X.(*ssa.FreeVar)
	if !ok {
		return false
	}
	fn := mc.Fn.(*ssa.Function)
	for i, x := range fn.FreeVars {
		if x != fv {
			continue
		}
		bind := mc.Bindings[i]
		if ub, ok := b.(*ssa.UnOp); ok && ub.X == bind {
			return true
		}
		if al, ok := bind.(*ssa.Alloc); ok {
			for _, s := range storesTo(al) {
				if s.Val == b || strip(s.Val) == strip(b) {
					return true
				}
			}
		}
	}
	return false
}
