package main

import (
	"go/token"
	"go/types"
	"math"

	"golang.org/x/tools/go/ssa"
)

func init() {
	register(&PropDef{
		ID:    "C14",
		Pkgs:  []string{tr},
		Claim: "Decides the structural part: on GOAWAY the client marks as unprocessed and closes exactly the streams with id in (lastStreamID, previous limit], the previous limit being the previous GOAWAY's id (or MaxUint32 for the first), read before it is replaced; the first GOAWAY makes the transport draining and no stream id is assigned while draining; the writer refuses queued stream creations once draining (orphaning them with the drain error); a stream is marked unprocessed only by GOAWAY, by RST_STREAM(REFUSED_STREAM) or when it was never sent; on the server the final GOAWAY carries the highest accepted stream id read under the stream-id mutex after the state became draining, the admission of a new stream (id recording, reachability check, hand-off) happens in one critical section of that mutex, the first GOAWAY carries MaxUint32 with a ping; the writer exits in draining mode only when no stream is left. Client and server transport state behind t.mu (connection state, stream table, GOAWAY reason/code/message, keepalive dormancy flag, server idle time) is accessed only with the mutex held and the mutex is balanced (released on every exit, never re-acquired while held, never released without a reaching acquire). Client and server transport state behind the transport mutex is accessed under it with balanced locking; the first-GOAWAY test is on the GOAWAY channel; connection-error reasons are the stated ones.",
		NotDecided:  []string{"races between stream creation and the two-phase GOAWAY as schedules", "that a transparently retried RPC is not executed twice by a misbehaving server"},
		Assumptions: []string{"the client application retries unprocessed streams (decided under C18)"},
		Technique:   "static analysis: dominating guards on go/ssa branch facts, ordering of loads and stores, who-may-write, must-lockset, value-origin",
		Run:         c14,
	})
}

func c14(c *Ctx) {
	cl := func(f string) *types.Var { return c.field(tr, "http2Client", f) }
	sv := func(f string) *types.Var { return c.field(tr, "http2Server", f) }
	fUn := c.field(tr, "ClientStream", "unprocessed")
	markUn := func(in ssa.Instruction) bool {
		call, ok := in.(*ssa.Call)
		return ok && CalleeX("sync/atomic", "Bool.Store")(&call.Call) && FieldAddrOf(fUn)(call.Call.Args[0]) && ConstBool(true)(call.Call.Args[1])
	}
	c.Ob("unprocessed-range", "R2", "GOAWAY handling: a stream is marked unprocessed and scheduled for closing only if lastStreamID < id <= limit, where limit is the previous GOAWAY id (MaxUint32 if none), read before prevGoAwayID is overwritten with the new id", 6, func() {
		f := c.fn(tr, "http2Client.handleGoAway")
		fLast := c.field(h2, "GoAwayFrame", "LastStreamID")
		id := FieldLoad(fLast)
		isLimit := func(v ssa.Value) bool {
			for _, lf := range phiLeaves(v) {
				if !(FieldLoad(cl("prevGoAwayID"))(lf.Val) || ConstInt(math.MaxUint32)(lf.Val)) {
					return false
				}
			}
			return len(phiLeaves(v)) == 2
		}
		m := one(c, "unprocessed.Store(true) in handleGoAway", instrsWhere(f, markUn))
		c.MustFact(m, "id-above-last-stream-id", Cmp(AnyV, token.GTR, id))
		c.MustFact(m, "id-within-previous-limit", Cmp(AnyV, token.LEQ, isLimit))
		// MaxUint32 exactly when there was no previous GOAWAY
		for _, in := range instrsWhere(f, func(in ssa.Instruction) bool { p, ok := in.(*ssa.Phi); return ok && isLimit(p) }) {
			for _, lf := range phiLeaves(in.(*ssa.Phi)) {
				if ConstInt(math.MaxUint32)(lf.Val) {
					c.Expect(hasAllFacts(lf.Facts, []FM{CmpInt(FieldLoad(cl("prevGoAwayID")), token.EQL, 0)}), in, f, "no-previous-goaway->all-later-streams", "the limit is MaxUint32 although a previous GOAWAY id exists")
				}
			}
		}
		st := one(c, "prevGoAwayID store", storesToField(f, cl("prevGoAwayID")))
		c.ValueIs(st, st.Val, "remembers-this-goaway-id", id)
		for _, rd := range readsOf(f, cl("prevGoAwayID")) {
			c.Expect(instrDominates(rd, st) || !reachableBlocks(st.Block())[rd.Block()], rd, f, "limit-read-before-overwrite", "the previous GOAWAY id is read after it was overwritten")
		}
		// every marked stream is closed with the drain error
		cs := one(c, "closeStream in handleGoAway", callsIn(f, Callee(tr, "http2Client.closeStream")))
		c.ArgIs(cs, 2, "closed-with-drain-error", GlobalLoad(c.konst(tr, "errStreamDrain")))
		c.WhoMayMutate("prevGoAwayID", cl("prevGoAwayID"), c.scope(tr), "internal/transport.http2Client.handleGoAway")
	})
	c.Ob("no-new-stream", "R2", "first GOAWAY: the GOAWAY channel is closed once and the state becomes draining; stream ids are assigned only while not draining; the writer orphans queued stream creations with the drain error once draining", 7, func() {
		f := c.fn(tr, "http2Client.handleGoAway")
		fGA := cl("goAway")
		ncl := 0
		for _, fn := range c.scope(tr) {
			for _, m := range mutationsOf(fn, fGA) {
				if m.Kind == "close" {
					ncl++
					c.Expect(fn == f, m.Instr, fn, "goaway-channel-closed-in-handler", "the GOAWAY channel is closed outside the GOAWAY handler")
				}
			}
		}
		c.Expect(ncl == 1, nil, f, "one-close-of-goaway-channel", "expected exactly one close of the GOAWAY channel")
		// the handler fails the connection only for an even non-zero id, an id above the previous GOAWAY's, or a GOAWAY that
		// finds no active stream — never while streams at or below the announced id are still running
		fLast := c.field(h2, "GoAwayFrame", "LastStreamID")
		for _, r := range returnsOf(f) {
			if r.Block() == f.Recover || ConstNil(strip(r.Results[0])) {
				continue
			}
			c.MustFactAny(r, "connection-error-only-for-a-stated-reason",
				CmpInt(func(v ssa.Value) bool { b, ok := v.(*ssa.BinOp); return ok && b.Op == token.REM && ConstInt(2)(b.Y) }, token.EQL, 0),
				Cmp(FieldLoad(fLast), token.GTR, FieldLoad(cl("prevGoAwayID"))),
				CmpInt(LenOf(FieldLoad(cl("activeStreams"))), token.EQL, 0),
				Cmp(FieldLoad(cl("state")), token.EQL, ConstOfObj(c.konst(tr, "closing"))))
		}
		// "have I seen a GOAWAY before?" is decided on the GOAWAY channel itself (closed = yes), not on the draining state,
		// which the client also enters on its own (GracefulClose) without any GOAWAY: the channel is closed on the arm
		// where the non-blocking receive from it did not fire, and the "id exceeds the previous GOAWAY's" connection error
		// is raised only on the arm where it fired
		var sel *ssa.Select
		for _, in := range instrsWhere(f, func(in ssa.Instruction) bool {
			s, ok := in.(*ssa.Select)
			return ok && !s.Blocking && len(s.States) == 1 && FieldLoad(fGA)(s.States[0].Chan)
		}) {
			sel = in.(*ssa.Select)
		}
		if c.Expect(sel != nil, nil, f, "seen-before-test-on-the-goaway-channel", "the handler does not test the GOAWAY channel (non-blocking receive) to tell a first GOAWAY from a later one") {
			idx := ExtractOf(func(v ssa.Value) bool { return v == ssa.Value(sel) }, 0)
			for _, fn := range c.scope(tr) {
				for _, m := range mutationsOf(fn, fGA) {
					if m.Kind == "close" && fn == f {
						c.MustFact(m.Instr, "closed-only-when-not-yet-closed", CmpInt(idx, token.NEQ, 0))
					}
				}
			}
			for _, r := range returnsOf(f) {
				if r.Block() == f.Recover || ConstNil(strip(r.Results[0])) {
					continue
				}
				if c.HasFact(r, Cmp(FieldLoad(c.field(h2, "GoAwayFrame", "LastStreamID")), token.GTR, FieldLoad(cl("prevGoAwayID")))) {
					c.MustFact(r, "exceeds-previous-only-after-a-previous-goaway", CmpInt(idx, token.EQL, 0))
				}
			}
		}
		draining := ConstOfObj(c.konst(tr, "draining"))
		nd := 0
		for _, st := range storesToField(f, cl("state")) {
			if draining(st.Val) {
				nd++
			}
		}
		c.Expect(nd == 1, nil, f, "goaway-sets-draining", "the first GOAWAY does not make the transport draining")
		ns := c.fn(tr, "http2Client.NewStream")
		fSID := c.field(tr, "clientHeaders", "streamID")
		for _, a := range ns.AnonFuncs {
			for _, st := range storesToField(a, fSID) {
				c.MustFact(st, "id-only-while-not-draining", Cmp(FieldLoad(cl("state")), token.NEQ, draining))
			}
		}
		h := c.fn(tr, "loopyWriter.clientHeaderHandler")
		fDr := c.field(tr, "loopyWriter", "draining")
		init := one(c, "initStream in the writer", callsIn(h, FieldCall(c.field(tr, "clientHeaders", "initStream"))))
		c.MustFact(init, "stream-created-only-if-not-draining", Truth(FieldLoad(fDr), false))
		wh := one(c, "writeHeader in the client header handler", callsIn(h, Callee(tr, "loopyWriter.writeHeader")))
		c.MustFact(wh, "headers-sent-only-if-not-draining", Truth(FieldLoad(fDr), false))
		orph := one(c, "onOrphaned in the writer", callsIn(h, FieldCall(c.field(tr, "clientHeaders", "onOrphaned"))))
		c.MustFact(orph, "orphaned-only-if-draining", Truth(FieldLoad(fDr), true))
		c.ArgIs(orph, 0, "orphaned-with-drain-error", GlobalLoad(c.konst(tr, "errStreamDrain")))
		ig := c.fn(tr, "loopyWriter.incomingGoAwayHandler")
		ok := false
		for _, st := range storesToField(ig, fDr) {
			if ConstBool(true)(st.Val) {
				ok = true
				c.MustFact(st, "client-side-only", Cmp(FieldLoad(c.field(tr, "loopyWriter", "side")), token.EQL, ConstOfObj(c.konst(tr, "clientSide"))))
			}
		}
		c.Expect(ok, nil, ig, "goaway-makes-writer-draining", "an incoming GOAWAY does not put the client's writer into draining mode")
	})
	c.Ob("transport-mutex", "R4", "client and server transport state behind t.mu (connection state, the stream table, GOAWAY bookkeeping, id counters) is accessed only with the mutex held, and the mutex is balanced: released on every exit, never re-acquired while held, never released without having been acquired", 20, func() {
		c.GuardedBy(GuardSpec{Label: "http2Client", Mu: cl("mu"),
			Fields: []*types.Var{cl("state"), cl("activeStreams"), cl("goAwayReason"), cl("goAwayDebugMessage"), cl("goAwayCode"), cl("kpDormant")},
			Scope:  c.scope(tr),
			Locked: map[string]bool{"internal/transport.http2Client.setGoAwayReason": true},
			Exempt: map[string]string{"internal/transport.NewHTTP2Client": "construction: the transport is not yet shared"}})
		c.GuardedBy(GuardSpec{Label: "http2Server", Mu: sv("mu"),
			Fields: []*types.Var{sv("state"), sv("activeStreams"), sv("idle")},
			Scope:  c.scope(tr),
			Exempt: map[string]string{"internal/transport.NewServerTransport": "construction: the transport is not yet shared"}})
	})
	c.Ob("unprocessed-writers", "R1", "a client stream is marked unprocessed only in the stream-creation cleanup (never sent), on RST_STREAM(REFUSED_STREAM) and on GOAWAY", 3, func() {
		allowed := map[string]bool{"internal/transport.http2Client.NewStream": true, "internal/transport.http2Client.handleRSTStream": true, "internal/transport.http2Client.handleGoAway": true}
		n := 0
		for _, f := range c.scope(tr) {
			for _, in := range instrsWhere(f, markUn) {
				n++
				c.inst("unprocessed.Store(true) <- " + c.siteStr(in))
				if !allowed[shortName(topFunc(f))] {
					c.violate(in, f, "unprocessed-marked-elsewhere", "a stream is marked unprocessed outside the three reviewed sites (the RPC could be transparently retried although the server may have processed it)", nil)
				}
			}
		}
		c.Expect(n == 3, nil, nil, "three-sites", "expected three sites marking streams unprocessed")
	})
	c.Ob("last-id", "R8", "server: the final GOAWAY's last-stream-id is the highest accepted id, read with the stream-id mutex and the transport mutex held after state=draining; the first GOAWAY carries MaxUint32 and is followed by a ping; admission of a stream (id recording, reachability check, hand-off) is one critical section of the stream-id mutex", 8, func() {
		f := c.fn(tr, "http2Server.outgoingGoAwayHandler")
		ls := locksets(f, lockOpts{})
		was := callsIn(f, CalleeX(h2, "Framer.WriteGoAway"))
		if len(was) != 2 {
			panic(missingStep{"expected two WriteGoAway calls (heads-up and final)"})
		}
		var final, first ssa.CallInstruction
		for _, w := range was {
			if ConstInt(math.MaxUint32)(w.Common().Args[1]) {
				first = w
			} else {
				final = w
			}
		}
		if first == nil || final == nil {
			panic(missingStep{"cannot tell the heads-up GOAWAY from the final one"})
		}
		fHeads := c.field(tr, "goAway", "headsUp")
		c.MustFact(final, "final-only-if-not-heads-up", Truth(FieldLoad(fHeads), false))
		c.MustFact(first, "heads-up-carries-max-id", Truth(FieldLoad(fHeads), true))
		if c.ArgIs(final, 1, "final-id-is-highest-accepted", FieldLoad(sv("maxStreamID"))) {
			ld := strip(final.Common().Args[1]).(ssa.Instruction)
			c.Expect(ls[ld][sv("maxStreamMu")], ld, f, "id-read-under-stream-id-mutex", "the highest accepted stream id is read without the stream-id mutex")
			var dr *ssa.Store
			for _, st := range storesToField(f, sv("state")) {
				if ConstOfObj(c.konst(tr, "draining"))(st.Val) {
					dr = st
				}
			}
			if c.Expect(dr != nil, nil, f, "state-becomes-draining", "the final GOAWAY does not make the transport draining") {
				c.Expect(instrDominates(dr, ld), ld, f, "draining-before-reading-id", "the id is read before new streams are refused")
				c.Expect(ls[dr][sv("maxStreamMu")] && ls[dr][sv("mu")], dr, f, "draining-under-both-mutexes", "draining is set without both mutexes")
			}
		}
		pings := callsIn(f, CalleeX(h2, "Framer.WritePing"))
		if c.Expect(len(pings) == 1, nil, f, "heads-up-followed-by-ping", "the heads-up GOAWAY is not followed by a ping") {
			c.Dominates(first, pings[0], "goaway-then-ping")
		}
		oh := c.fn(tr, "http2Server.operateHeaders")
		ols := locksets(oh, lockOpts{})
		for _, st := range storesToField(oh, sv("maxStreamID")) {
			c.Expect(ols[st][sv("maxStreamMu")], st, oh, "id-recorded-under-stream-id-mutex", "maxStreamID is written without the stream-id mutex")
		}
		handle := one(c, "hand-off to the application", callsIn(oh, ValueCall(ParamV("handle"))))
		c.Expect(ols[handle][sv("maxStreamMu")], handle, oh, "handoff-in-same-critical-section", "the stream-id mutex is released between recording the id and deciding whether the stream is admitted (a final GOAWAY could announce an id that is then dropped)")
		for _, rd := range readsOf(oh, sv("state")) {
			c.Expect(ols[rd][sv("maxStreamMu")] && ols[rd][sv("mu")], rd, oh, "reachability-checked-under-both-mutexes", "the reachability check is not under both mutexes")
		}
		c.MustFact(handle, "admitted-only-if-reachable", Cmp(FieldLoad(sv("state")), token.EQL, ConstOfObj(c.konst(tr, "reachable"))))
	})
	c.Ob("drain-exit", "R2", "the writer ends in draining mode only when no established stream is left", 2, func() {
		f := c.fn(tr, "loopyWriter.cleanupStreamHandler")
		fDr := c.field(tr, "loopyWriter", "draining")
		fE := c.field(tr, "loopyWriter", "estdStreams")
		n := 0
		for _, r := range returnsOf(f) {
			if r.Block() == f.Recover || !provablyNonNil(r.Results[0], r, 0) {
				continue
			}
			if CallRes(CalleeX(h2, "Framer.WriteRSTStream"), 0)(r.Results[0]) || DataDep(CallRes(CalleeX(h2, "Framer.WriteRSTStream"), 0))(r.Results[0]) {
				continue
			}
			n++
			c.MustFact(r, "only-when-draining", Truth(FieldLoad(fDr), true))
			c.MustFact(r, "only-when-no-streams-left", CmpInt(LenOf(FieldLoad(fE)), token.EQL, 0))
		}
		c.Expect(n == 1, nil, f, "one-drain-exit", "expected exactly one drain-finished exit")
	})
}
