package main

import (
	"go/token"
	"go/types"
	"math"

	"golang.org/x/tools/go/ssa"
)

const idlePkg = "internal/idle"

func init() {
	register(&PropDef{
		ID:    "C29",
		Pkgs:  []string{idlePkg, "grpc"},
		Claim: "Decides the structural part: the channel is told to enter idle only after a successful compare-and-swap of the active-call counter from 0 to the idle sentinel, under the idle mutex, after re-checking the sentinel and (for timer-driven entry) the activity flag; every refusal after the successful swap adds the sentinel back; leaving idle restores the counter and the flag under the same mutex; a call that finds the sentinel exits idle before returning; every RPC brackets OnCallBegin with an OnCallEnd registered for its termination. The all-schedules linearizability argument is not made.",
		NotDecided:  []string{"linearizability of the lock-free counter protocol over all interleavings", "timer-expiry timing"},
		Assumptions: []string{"sync/atomic operations are sequentially consistent"},
		Technique:   "static analysis: who-may-call, dominating guards on go/ssa branch facts (CAS result, re-check), must-lockset, must-pass-through path search for the compensation step",
		Run:         c29,
	})
}

func c29(c *Ctx) {
	fCount := c.field(idlePkg, "Manager", "activeCallsCount")
	fActive := c.field(idlePkg, "Manager", "activeSinceLastTimerCheck")
	fIdle := c.field(idlePkg, "Manager", "actuallyIdle")
	idleMu := c.field(idlePkg, "Manager", "idleMu")
	sentinel := ConstInt(-math.MaxInt32)
	plusSentinel := ConstInt(math.MaxInt32)
	cnt := FieldAddrOf(fCount)
	cas := func(v ssa.Value) bool {
		call, ok := strip(v).(*ssa.Call)
		if !ok || !CalleeX("sync/atomic", "CompareAndSwapInt32")(&call.Call) {
			return false
		}
		a := call.Call.Args
		return cnt(a[0]) && ConstInt(0)(a[1]) && sentinel(a[2])
	}
	loadCnt := CallWith(CalleeX("sync/atomic", "LoadInt32"), 0, cnt)
	loadAct := CallWith(CalleeX("sync/atomic", "LoadInt32"), 0, FieldAddrOf(fActive))
	addBack := func(in ssa.Instruction) bool {
		call, ok := in.(*ssa.Call)
		if !ok || !CalleeX("sync/atomic", "AddInt32")(&call.Call) {
			return false
		}
		return cnt(call.Call.Args[0]) && plusSentinel(call.Call.Args[1])
	}
	enterCM := Callee(idlePkg, "ClientConn.EnterIdleMode")
	exitCM := Callee(idlePkg, "ClientConn.ExitIdleMode")
	c.Ob("enter-exit-callers", "R1", "the channel's EnterIdleMode is called only from the guarded try-enter function and its ExitIdleMode only from the manager's exit function", 2, func() {
		c.WhoMayCall("cc.EnterIdleMode", enterCM, c.scope(idlePkg), "internal/idle.Manager.tryEnterIdleMode")
		c.WhoMayCall("cc.ExitIdleMode", exitCM, c.scope(idlePkg), "internal/idle.Manager.ExitIdleMode")
	})
	c.Ob("enter-guards", "R2", "EnterIdleMode is dominated by a successful CAS(count, 0, -MaxInt32), runs under idleMu, after the re-check count == -MaxInt32, and is unreachable when checkActivity is set and activity was recorded", 4, func() {
		f := c.fn(idlePkg, "Manager.tryEnterIdleMode")
		enter := one(c, "EnterIdleMode call", callsIn(f, enterCM))
		c.MustFact(enter, "cas-succeeded", Truth(cas, true))
		c.MustFact(enter, "sentinel-rechecked-under-lock", Cmp(loadCnt, token.EQL, sentinel))
		ls := locksets(f, lockOpts{})
		c.Expect(ls[enter][idleMu], enter, f, "under-idleMu", "EnterIdleMode is called without idleMu")
		c.Unreachable(enter, "activity-blocks-timer-entry", Truth(ParamV("checkActivity"), true), Cmp(loadAct, token.EQL, ConstInt(1)))
		// the re-check happens after the lock is taken
		for _, in := range instrsWhere(f, func(in ssa.Instruction) bool { v, ok := in.(ssa.Value); return ok && loadCnt(v) }) {
			c.Expect(ls[in][idleMu], in, f, "recheck-under-idleMu", "the sentinel re-check is done before taking idleMu")
		}
		st := one(c, "store actuallyIdle in tryEnterIdleMode", storesToField(f, fIdle))
		c.ValueIs(st, st.Val, "marks-idle", ConstBool(true))
		c.Dominates(enter, st, "enter-before-marking-idle")
	})
	c.Ob("compensate", "R3", "after the successful CAS every return either went through EnterIdleMode or added MaxInt32 back to the counter", 1, func() {
		f := c.fn(idlePkg, "Manager.tryEnterIdleMode")
		var casI ssa.Instruction
		for _, in := range instrsWhere(f, func(in ssa.Instruction) bool { v, ok := in.(ssa.Value); return ok && cas(v) }) {
			casI = in
		}
		if casI == nil {
			panic(missingStep{"no CAS(count, 0, -MaxInt32) in tryEnterIdleMode"})
		}
		q := pathQuery{Fn: f, Starts: []ssa.Instruction{casI}, Barrier: orInstr(addBack, isCallTo(enterCM)), Target: isReturn,
			EdgeBlock: func(from, to *ssa.BasicBlock) bool {
				_, ok := hasFact(edgeFacts(from, to), Truth(cas, false))
				return ok
			}}
		c.MustPass("refusal-after-cas-adds-sentinel-back", q, casI)
		// and a failed CAS returns false without touching anything
		for _, b := range blocksWhere(f, Truth(cas, false)) {
			for _, in := range b.Instrs {
				c.Expect(!addBack(in) && !isCallTo(enterCM)(in), in, f, "failed-cas-does-nothing", "the failed-CAS arm modifies the counter or enters idle")
			}
		}
	})
	c.Ob("exit-restores", "R3", "ExitIdleMode calls the channel only when not closed and actually idle, under idleMu, and is followed on all paths by adding MaxInt32 back and clearing the idle flag", 5, func() {
		f := c.fn(idlePkg, "Manager.ExitIdleMode")
		ex := one(c, "cc.ExitIdleMode call", callsIn(f, exitCM))
		c.MustFact(ex, "not-closed", Truth(CallRes(Callee(idlePkg, "Manager.isClosed"), 0), false))
		c.MustFact(ex, "actually-idle", Truth(FieldLoad(fIdle), true))
		ls := locksets(f, lockOpts{})
		c.Expect(ls[ex][idleMu], ex, f, "under-idleMu", "cc.ExitIdleMode is called without idleMu")
		c.MustPass("counter-restored-after-exit", pathQuery{Fn: f, Starts: []ssa.Instruction{ex}, Barrier: addBack, Target: isReturn}, ex)
		clr := func(in ssa.Instruction) bool {
			st, ok := in.(*ssa.Store)
			return ok && FieldAddrOf(fIdle)(st.Addr) && ConstBool(false)(st.Val)
		}
		c.MustPass("idle-flag-cleared-after-exit", pathQuery{Fn: f, Starts: []ssa.Instruction{ex}, Barrier: clr, Target: isReturn}, ex)
		// nothing restores the counter without having exited (other than the documented unsafe setter)
		for _, in := range instrsWhere(f, addBack) {
			c.Dominates(ex, in, "restore-only-after-exit")
		}
	})
	c.Ob("actuallyIdle", "R4", "the idle flag is accessed only under idleMu (helpers named ...Locked are checked at their call sites); it is set true only after EnterIdleMode and false only by the exit paths", 6, func() {
		c.GuardedBy(GuardSpec{Label: "actuallyIdle", Mu: idleMu, Fields: []*types.Var{fIdle}, Scope: c.scope(idlePkg),
			Locked: map[string]bool{"internal/idle.Manager.resetIdleTimerLocked": true}})
		c.WhoMayMutate("actuallyIdle", fIdle, c.scope(idlePkg), "internal/idle.NewManager", "internal/idle.Manager.tryEnterIdleMode", "internal/idle.Manager.ExitIdleMode", "internal/idle.Manager.UnsafeSetNotIdle")
	})
	c.Ob("begin-exits-idle", "R3", "a beginning call that finds the counter at or below zero after its increment reaches its return only through ExitIdleMode", 2, func() {
		f := c.fn(idlePkg, "Manager.OnCallBegin")
		inc := func(v ssa.Value) bool {
			call, ok := strip(v).(*ssa.Call)
			return ok && CalleeX("sync/atomic", "AddInt32")(&call.Call) && cnt(call.Call.Args[0]) && ConstInt(1)(call.Call.Args[1])
		}
		var incI ssa.Instruction
		for _, in := range instrsWhere(f, func(in ssa.Instruction) bool { v, ok := in.(ssa.Value); return ok && inc(v) }) {
			incI = in
		}
		if incI == nil {
			panic(missingStep{"no AddInt32(count, 1) in OnCallBegin"})
		}
		q := pathQuery{Fn: f, Starts: []ssa.Instruction{incI}, Barrier: isCallTo(Callee(idlePkg, "Manager.ExitIdleMode")), Target: isReturn,
			EdgeBlock: func(from, to *ssa.BasicBlock) bool {
				_, ok := hasFact(edgeFacts(from, to), CmpInt(inc, token.GTR, 0))
				return ok
			}}
		c.MustPass("non-positive-count-exits-idle", q, incI)
		// the increment is not skipped except when closed
		q2 := pathQuery{Fn: f, AtEntry: true, Barrier: func(in ssa.Instruction) bool { return in == incI }, Target: isReturn,
			EdgeBlock: func(from, to *ssa.BasicBlock) bool {
				_, ok := hasFact(edgeFacts(from, to), Truth(CallRes(Callee(idlePkg, "Manager.isClosed"), 0), true))
				return ok
			}}
		c.MustPass("every-open-call-is-counted", q2, incI)
		e := c.fn(idlePkg, "Manager.OnCallEnd")
		dec := instrsWhere(e, func(in ssa.Instruction) bool {
			call, ok := in.(*ssa.Call)
			return ok && CalleeX("sync/atomic", "AddInt32")(&call.Call) && cnt(call.Call.Args[0]) && ConstInt(-1)(call.Call.Args[1])
		})
		c.Expect(len(dec) == 1, nil, e, "end-decrements-once", "OnCallEnd does not decrement the counter exactly once")
	})
	c.Ob("rpc-brackets", "R12", "stream creation calls OnCallBegin before anything that can fail and registers OnCallEnd as an OnFinish option that the end-of-stream hook runs; on a failing creation the deferred hook runs the options", 4, func() {
		f := c.fn("grpc", "newClientStream")
		begin := one(c, "OnCallBegin call", callsIn(f, Callee(idlePkg, "Manager.OnCallBegin")))
		for _, r := range returnsOf(f) {
			if r.Block() == f.Recover {
				continue
			}
			c.Expect(instrDominates(begin, r), r, f, "begin-before-every-return", "a return of newClientStream is not preceded by OnCallBegin")
		}
		// the OnCallEnd closure is wrapped by OnFinish and put into opts
		var endCl *ssa.Function
		for _, a := range f.AnonFuncs {
			if len(callsIn(a, Callee(idlePkg, "Manager.OnCallEnd"))) == 1 {
				endCl = a
			}
		}
		if !c.Expect(endCl != nil, nil, f, "OnCallEnd-closure", "no closure calling OnCallEnd in newClientStream") {
			return
		}
		onf := callsIn(f, Callee("grpc", "OnFinish"))
		found := false
		for _, o := range onf {
			if funcOfValue(o.Common().Args[0]) == endCl {
				found = true
				c.Dominates(begin, o, "begin-before-registering-end")
				// nothing that can fail (a return) lies between begin and the registration
				q := pathQuery{Fn: f, Starts: []ssa.Instruction{begin}, Barrier: func(in ssa.Instruction) bool { return in == ssa.Instruction(o) }, Target: isReturn}
				c.MustPass("end-registered-before-any-failure", q, o)
			}
		}
		c.Expect(found, nil, f, "OnCallEnd-wrapped-in-OnFinish", "the OnCallEnd closure is not registered through OnFinish")
		// the deferred failure hook runs endOfClientStream
		var dfr *ssa.Function
		for _, a := range f.AnonFuncs {
			if len(callsIn(a, Callee("grpc", "endOfClientStream"))) == 1 {
				dfr = a
			}
		}
		if c.Expect(dfr != nil, nil, f, "deferred-end-hook", "no deferred closure calling endOfClientStream") {
			ec := callsIn(dfr, Callee("grpc", "endOfClientStream"))[0]
			c.MustFact(ec, "only-on-error", NotNil(AnyV))
			dd := instrsWhere(f, func(in ssa.Instruction) bool { d, ok := in.(*ssa.Defer); return ok && d.Call.StaticCallee() == dfr })
			c.Expect(len(dd) == 1 && instrDominates(dd[0], begin), nil, f, "hook-deferred-before-begin", "the failure hook is not deferred before OnCallBegin")
		}
		eo := c.fn("grpc", "endOfClientStream")
		c.Expect(len(callsIn(eo, FieldCall(c.field("grpc", "OnFinishCallOption", "OnFinish")))) == 1, nil, eo, "end-hook-runs-OnFinish", "endOfClientStream does not invoke OnFinish options")
		cf := c.fn("grpc", "clientStream.finish")
		c.Expect(len(callsIn(cf, Callee("grpc", "endOfClientStream"))) == 1, nil, cf, "finish-runs-end-hook", "clientStream.finish does not run endOfClientStream")
	})
}
