#!/usr/bin/env python3
"""Mutation campaign against the static checks (dev aid, not a registered check).

For each property, small syntactic mutants are generated inside the functions the
check anchors on (recorded with VCHK_FNLOG), applied one at a time to a scratch
worktree of /repo, compiled, and the property's quick check is run against that
worktree (VERIF_REPO). A mutant is
  killed    - the check exits 1 (VIOLATION) or 2 (anchor/shape no longer recognised),
  survived  - the check exits 0,
  invalid   - the package no longer compiles (discarded).
Survivors are *candidates*: many are equivalent or irrelevant to the property; they are
triaged by reading. Nothing of grpc-go is executed.

usage: mutate.py <fnlog> <worktree> <out.json> [Cnn ...]   (env MAXPER=30)
"""
import json,os,re,subprocess,sys,random,hashlib
fnlog,wt,out=sys.argv[1:4]; only=set(sys.argv[4:])
MAXPER=int(os.environ.get('MAXPER','30'))
ENV=dict(os.environ,PATH='/opt/veriftools/go1.26.8/bin:'+os.environ['PATH'],GOTOOLCHAIN='local',GOFLAGS='-mod=mod',GOPROXY='off',GOSUMDB='off')
ENV.pop('GOWORK',None)
anchors={}
for l in sorted(set(open(fnlog))):
    p,f,a,b=l.split(); 
    if only and p not in only: continue
    rel=os.path.relpath(f,'/repo')
    anchors.setdefault(p,[]).append((rel,int(a),int(b)))
OPS=[(' <= ',' < '),(' < ',' <= '),(' >= ',' > '),(' > ',' >= '),(' == ',' != '),(' != ',' == '),(' && ',' || '),(' || ',' && ')]
def mutants_for(rel,a,b):
    src=open(os.path.join(wt,rel)).read().split('\n')
    ms=[]
    for i in range(a,b):  # 0-based line i = source line i+1; skip the signature line
        line=src[i]
        s=line.strip()
        if not s or s.startswith('//'): continue
        code=line.split('//')[0] if '"' not in line else line
        if re.match(r'\s*(if|for|return|case|switch)\b',code) or ' := ' in code or ' = ' in code:
            for old,new in OPS:
                k=code.find(old)
                if k>=0 and '<-' not in code[k-1:k+3]:
                    ms.append((rel,i,line,code[:k]+new+code[k+len(old):]+line[len(code):],f'{old.strip()}->{new.strip()}'))
        m=re.match(r'^(\s*)if (.+) \{\s*$',code)
        if m and ' := ' not in m.group(2) and ';' not in m.group(2):
            ms.append((rel,i,line,f'{m.group(1)}if !({m.group(2)}) {{','negate-if'))
        if re.match(r'^\s*[A-Za-z_][\w\.\[\]\(\)\*]*\([^{}]*\)\s*$',code) and not re.match(r'^\s*(return|defer|go|panic)\b',code):
            ms.append((rel,i,line,re.match(r'^(\s*)',line).group(1)+'_ = 0 // deleted: '+s.replace('*/','')[:60],'delete-call'))
        if re.search(r'= true\s*$',code): ms.append((rel,i,line,re.sub(r'= true(\s*)$',r'= false\1',code),'true->false'))
        elif re.search(r'= false\s*$',code): ms.append((rel,i,line,re.sub(r'= false(\s*)$',r'= true\1',code),'false->true'))
        if re.match(r'^\s*(continue|break)\s*$',code): ms.append((rel,i,line,line.replace('continue','break') if 'continue' in line else line.replace('break','continue'),'continue<->break'))
    return ms
res=json.load(open(out)) if os.path.exists(out) else {}
for p in sorted(anchors):
    if p in res: continue
    allm=[]
    for rel,a,b in anchors[p]:
        if rel.startswith('..') or '/pb/' in rel: continue
        allm+=mutants_for(rel,a,b)
    rnd=random.Random(int(hashlib.md5(p.encode()).hexdigest()[:8],16)); rnd.shuffle(allm)
    done=0; rec=[]
    for rel,i,old,new,kind in allm:
        if done>=MAXPER: break
        path=os.path.join(wt,rel); src=open(path).read().split('\n')
        if src[i]!=old: continue
        src[i]=new; open(path,'w').write('\n'.join(src))
        try:
            b=subprocess.run(['go','build','./'+os.path.dirname(rel)],cwd=wt,env=ENV,capture_output=True,text=True)
            if b.returncode!=0:
                status='invalid'
            else:
                r=subprocess.run(['/verif/run.sh',p,'quick'],env=dict(ENV,VERIF_REPO=wt),capture_output=True,text=True)
                status={0:'survived',1:'killed',2:'killed-broken'}.get(r.returncode,'error')
                done+=1
        finally:
            subprocess.run(['git','-C',wt,'checkout','-q','--',rel])
        if status!='invalid': rec.append({'file':rel,'line':i+1,'kind':kind,'old':old.strip()[:140],'new':new.strip()[:140],'status':status})
    res[p]=rec
    json.dump(res,open(out,'w'),indent=1)
    k=sum(1 for x in rec if x['status'].startswith('killed')); s=sum(1 for x in rec if x['status']=='survived')
    print(p,'mutants',len(rec),'killed',k,'survived',s,flush=True)
