#!/bin/bash
cd /verif
tier=$1
for i in $(seq -w 1 58); do
  s=$(date +%s.%N)
  out=$(./run.sh C$i $tier 2>&1 | grep -v "^KNOWN-FINDING" | head -1 | cut -c1-140)
  rc=${PIPESTATUS[0]}
  e=$(date +%s.%N)
  printf "%s %.1fs\n" "$out" $(echo "$e - $s" | bc)
done
