#!/usr/bin/env python3
"""Second-level recheck: run every check whose packages include the mutated file's package
(not only the checks whose anchors cover the line) against each surviving mutant.
usage: recheck2.py <worktree> <out.json> <in mutres.json>...   (env PART=i/n)"""
import json,os,subprocess,sys
wt,out=sys.argv[1:3]; ins=sys.argv[3:]
part=os.environ.get('PART','0/1'); pi,pn=map(int,part.split('/'))
ENV=dict(os.environ,PATH='/opt/veriftools/go1.26.8/bin:'+os.environ['PATH'],GOTOOLCHAIN='local',GOFLAGS='-mod=mod',GOPROXY='off',GOSUMDB='off'); ENV.pop('GOWORK',None)
lst=json.loads(subprocess.run(['/verif/run.sh','list'],capture_output=True,text=True).stdout)
bypkg={}
for p in lst:
    for k in p['pkgs']:
        bypkg.setdefault('' if k=='grpc' else k,[]).append(p['id'])
muts={}
for f in ins:
    for p,rec in json.load(open(f)).items():
        for m in rec:
            if m['status']!='survived': continue
            k=(m['file'],m['line'],m['new'])
            muts.setdefault(k,dict(m,props=set()))['props'].add(p)
import glob
for f in glob.glob(os.environ.get('SKIPKILLED','/nonexistent')):
    for ks,v in json.load(open(f)).items():
        if v['status'] in ('killed','invalid','stale'):
            muts.pop((v['file'],v['line'],v['new']),None)
keys=sorted(muts)
res=json.load(open(out)) if os.path.exists(out) else {}
for idx,k in enumerate(keys):
    if idx%pn!=pi: continue
    ks='|'.join(map(str,k))
    if ks in res: continue
    m=muts[k]; rel,line=m['file'],m['line']
    d=os.path.dirname(rel)
    first=sorted(m['props']); rest=[p for p in sorted(bypkg.get(d,[])) if p not in first]
    props=first+rest
    path=os.path.join(wt,rel); src=open(path).read().split('\n')
    cand=[i for i,l in enumerate(src) if l.strip()==m['old'] or l.strip().startswith(m['old'][:100])]
    i=min(cand,key=lambda x:abs(x-(line-1))) if cand else None
    status='stale'; killed_by=None
    if i is not None:
        indent=src[i][:len(src[i])-len(src[i].lstrip())]
        src[i]=indent+m['new'] if not m['new'].startswith(indent) else m['new']
        open(path,'w').write('\n'.join(src))
        try:
            b=subprocess.run(['go','build','./'+d],cwd=wt,env=ENV,capture_output=True,text=True)
            if b.returncode!=0: status='invalid'
            else:
                status='survived'
                for p in props:
                    r=subprocess.run([os.environ.get('VCHK','/verif/bin/vchk'),'-repo',wt,'-out','/tmp/ev_'+str(pi),'-known','/verif/known-findings.txt',p,'quick'],env=dict(ENV,GOFLAGS='',GOWORK='off'),capture_output=True,text=True)
                    if r.returncode in (1,2):
                        status='killed'; killed_by=p; break
        finally:
            subprocess.run(['git','-C',wt,'checkout','-q','--',rel])
    res[ks]={'file':rel,'line':line,'kind':m['kind'],'old':m['old'],'new':m['new'],'status':status,'killed_by':killed_by,'checked':props}
    if idx%5==0: json.dump(res,open(out,'w'),indent=1)
json.dump(res,open(out,'w'),indent=1)
print('done',sum(1 for v in res.values() if v['status']=='survived'),'survive of',len(res))
