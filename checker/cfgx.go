package main

// CFG helpers on go/ssa functions: post-dominators, control dependence,
// instruction-granular reachability with barriers.

import (
	"golang.org/x/tools/go/ssa"
)

// FuncInfo caches per-function analyses.
type FuncInfo struct {
	Fn      *ssa.Function
	ipdom   []int     // immediate post-dominator block index, -1 = virtual exit
	cdep    [][]cdEdge // control dependences per block
	facts   [][]Fact  // must-facts at block entry
	factsOK bool
	stores  map[ssa.Value][]*ssa.Store // alloc/freevar -> stores (lazily)
	partStores map[ssa.Value][]*ssa.Store // alloc -> stores to a field/element of it
}

type cdEdge struct {
	Branch *ssa.BasicBlock // block ending in If
	Succ   int             // successor index taken (0 true, 1 false)
}

var finfos = map[*ssa.Function]*FuncInfo{}

func info(fn *ssa.Function) *FuncInfo {
	if fi, ok := finfos[fn]; ok {
		return fi
	}
	fi := &FuncInfo{Fn: fn}
	finfos[fn] = fi
	fi.computePostDom()
	fi.computeCD()
	return fi
}

// computePostDom: iterative dataflow over sets (functions are small).
func (fi *FuncInfo) computePostDom() {
	n := len(fi.Fn.Blocks)
	exit := n // virtual exit
	// pdom sets as bitsets over n+1
	words := (n + 1 + 63) / 64
	all := make([]uint64, words)
	for i := 0; i <= n; i++ {
		all[i/64] |= 1 << (uint(i) % 64)
	}
	pd := make([][]uint64, n+1)
	for i := 0; i <= n; i++ {
		pd[i] = append([]uint64(nil), all...)
	}
	for i := range pd[exit] {
		pd[exit][i] = 0
	}
	pd[exit][exit/64] |= 1 << (uint(exit) % 64)
	succs := func(b int) []int {
		blk := fi.Fn.Blocks[b]
		if len(blk.Succs) == 0 {
			return []int{exit}
		}
		out := make([]int, len(blk.Succs))
		for i, s := range blk.Succs {
			out[i] = s.Index
		}
		return out
	}
	changed := true
	for changed {
		changed = false
		for b := n - 1; b >= 0; b-- {
			nw := append([]uint64(nil), all...)
			for _, s := range succs(b) {
				for w := range nw {
					nw[w] &= pd[s][w]
				}
			}
			nw[b/64] |= 1 << (uint(b) % 64)
			same := true
			for w := range nw {
				if nw[w] != pd[b][w] {
					same = false
				}
			}
			if !same {
				pd[b] = nw
				changed = true
			}
		}
	}
	has := func(set []uint64, i int) bool { return set[i/64]&(1<<(uint(i)%64)) != 0 }
	count := func(set []uint64) int {
		c := 0
		for i := 0; i <= n; i++ {
			if has(set, i) {
				c++
			}
		}
		return c
	}
	fi.ipdom = make([]int, n)
	for b := 0; b < n; b++ {
		// ipdom = the strict post-dominator with the largest pdom set
		best, bestc := -1, -1
		for c := 0; c <= n; c++ {
			if c == b || !has(pd[b], c) {
				continue
			}
			cc := count(pd[c])
			if cc > bestc {
				best, bestc = c, cc
			}
		}
		if best == exit {
			best = -1
		}
		fi.ipdom[b] = best
	}
}

// postDominates reports whether block a post-dominates block b.
func (fi *FuncInfo) postDominates(a, b int) bool {
	for x := b; x != -1; x = fi.ipdom[x] {
		if x == a {
			return true
		}
	}
	return false
}

// computeCD: Y is control dependent on edge (D->S) if Y post-dominates S and
// Y does not strictly post-dominate D (Ferrante et al.).
func (fi *FuncInfo) computeCD() {
	n := len(fi.Fn.Blocks)
	fi.cdep = make([][]cdEdge, n)
	for _, d := range fi.Fn.Blocks {
		if len(d.Succs) < 2 {
			continue
		}
		for si, s := range d.Succs {
			// walk up the post-dominator tree from S to ipdom(D) exclusive
			stop := fi.ipdom[d.Index]
			for y := s.Index; y != -1 && y != stop; y = fi.ipdom[y] {
				fi.cdep[y] = append(fi.cdep[y], cdEdge{Branch: d, Succ: si})
			}
		}
	}
}

// cond returns the If condition of a block, or nil.
func blockCond(b *ssa.BasicBlock) ssa.Value {
	if len(b.Instrs) == 0 {
		return nil
	}
	if i, ok := b.Instrs[len(b.Instrs)-1].(*ssa.If); ok {
		return i.Cond
	}
	return nil
}

// instrIndex returns the index of instr inside its block.
func instrIndex(in ssa.Instruction) int {
	for i, x := range in.Block().Instrs {
		if x == in {
			return i
		}
	}
	return -1
}

// pathSearch explores forward from the given start points (instruction after
// each start) and returns a witness path of instructions to the first target
// reached without crossing a barrier; nil if no target is reachable.
// If startAtEntry is true the search starts at function entry.
type pathQuery struct {
	Fn        *ssa.Function
	Starts    []ssa.Instruction // search begins just after each
	StartBlocks []*ssa.BasicBlock // search begins at the first instruction of each
	AtEntry   bool
	Barrier   func(ssa.Instruction) bool
	Target    func(ssa.Instruction) bool
	EdgeBlock func(from, to *ssa.BasicBlock) bool // optional: edges not to follow
}

type pos struct {
	b *ssa.BasicBlock
	i int
}

func (q pathQuery) search() []ssa.Instruction {
	type node struct {
		p    pos
		prev int
		via  ssa.Instruction
	}
	var nodes []node
	seenBlockEntry := map[*ssa.BasicBlock]bool{}
	var queue []int
	push := func(p pos, prev int) {
		if p.i == 0 {
			if seenBlockEntry[p.b] {
				return
			}
			seenBlockEntry[p.b] = true
		}
		nodes = append(nodes, node{p: p, prev: prev})
		queue = append(queue, len(nodes)-1)
	}
	if q.AtEntry && len(q.Fn.Blocks) > 0 {
		push(pos{q.Fn.Blocks[0], 0}, -1)
	}
	for _, s := range q.Starts {
		push(pos{s.Block(), instrIndex(s) + 1}, -1)
	}
	for _, b := range q.StartBlocks {
		push(pos{b, 0}, -1)
	}
	for len(queue) > 0 {
		ni := queue[0]
		queue = queue[1:]
		nd := nodes[ni]
		b := nd.p.b
		blocked := false
		for i := nd.p.i; i < len(b.Instrs); i++ {
			in := b.Instrs[i]
			if q.Target != nil && q.Target(in) {
				// build witness
				var path []ssa.Instruction
				path = append(path, in)
				for x := ni; x != -1; x = nodes[x].prev {
					p := nodes[x].p
					if p.i < len(p.b.Instrs) {
						path = append(path, p.b.Instrs[p.i])
					}
				}
				// reverse
				for l, r := 0, len(path)-1; l < r; l, r = l+1, r-1 {
					path[l], path[r] = path[r], path[l]
				}
				return path
			}
			if q.Barrier != nil && q.Barrier(in) || noReturnCall(in) {
				blocked = true
				break
			}
		}
		if blocked {
			continue
		}
		for _, s := range b.Succs {
			if q.EdgeBlock != nil && q.EdgeBlock(b, s) {
				continue
			}
			push(pos{s, 0}, ni)
		}
	}
	return nil
}

// noReturnCall: calls that never return (process exit). go/ssa ends blocks at
// panic() but not at these; treating them as terminators is what makes
// `if dup { logger.Fatalf(...) }` a guard.
func noReturnCall(in ssa.Instruction) bool {
	c, ok := in.(*ssa.Call)
	if !ok {
		return false
	}
	f := calleeFunc(&c.Call)
	if f == nil {
		return false
	}
	p, n := funcQual(f)
	switch p {
	case "os":
		return n == "Exit"
	case "log":
		return n == "Fatal" || n == "Fatalf" || n == "Fatalln" || n == "Logger.Fatal" || n == "Logger.Fatalf" || n == "Logger.Fatalln"
	case modPath + "/grpclog", modPath + "/grpclog/internal", modPath + "/internal/grpclog":
		switch f.Name() {
		case "Fatal", "Fatalf", "Fatalln", "FatalDepth":
			return true
		}
	}
	return false
}

var noRetCache = map[*ssa.BasicBlock]int{}

func blockNoReturn(b *ssa.BasicBlock) bool {
	if v, ok := noRetCache[b]; ok {
		return v == 1
	}
	r := 2
	for _, in := range b.Instrs {
		if noReturnCall(in) {
			r = 1
			break
		}
	}
	noRetCache[b] = r
	return r == 1
}

// reachableBlocks returns the set of blocks reachable from b (inclusive).
func reachableBlocks(b *ssa.BasicBlock) map[*ssa.BasicBlock]bool {
	seen := map[*ssa.BasicBlock]bool{}
	var walk func(x *ssa.BasicBlock)
	walk = func(x *ssa.BasicBlock) {
		if seen[x] {
			return
		}
		seen[x] = true
		if blockNoReturn(x) {
			return
		}
		for _, s := range x.Succs {
			walk(s)
		}
	}
	walk(b)
	return seen
}

// instrDominates: a executes before b on every path to b.
func instrDominates(a, b ssa.Instruction) bool {
	if a.Parent() != b.Parent() {
		return false
	}
	if a.Block() == b.Block() {
		return instrIndex(a) < instrIndex(b)
	}
	return a.Block().Dominates(b.Block())
}

// thenAlways: b runs after a whenever either runs (a dominates b and b
// post-dominates a). This is what "in the same step" means for two statements;
// it does not depend on how many blocks an unrelated statement in between
// (a guarded log line, say) splits the code into.
func thenAlways(a, b ssa.Instruction) bool {
	if a.Parent() != b.Parent() {
		return false
	}
	if a.Block() == b.Block() {
		return instrIndex(a) < instrIndex(b)
	}
	fi := info(a.Parent())
	return a.Block().Dominates(b.Block()) && fi.postDominates(b.Block().Index, a.Block().Index)
}

// together: a and b run on exactly the same executions, in either order.
func together(a, b ssa.Instruction) bool {
	if a.Parent() != b.Parent() {
		return false
	}
	return a.Block() == b.Block() || thenAlways(a, b) || thenAlways(b, a)
}

// leadsInto: block b is one of the given blocks, or always runs into one of
// them (it dominates it and is post-dominated by it).
func leadsInto(set map[*ssa.BasicBlock]bool, b *ssa.BasicBlock) bool {
	if set[b] {
		return true
	}
	fi := info(b.Parent())
	for t, ok := range set {
		if ok && b.Dominates(t) && fi.postDominates(t.Index, b.Index) {
			return true
		}
	}
	return false
}

// afterLoop: blk lies behind a loop of its function (some loop header
// dominates it) and not inside that loop's body — it is reached only by the
// loop running out or being left.
func afterLoop(blk *ssa.BasicBlock) bool {
	ok := false
	for _, h := range blk.Parent().Blocks {
		if !isLoopHeader(h) || !h.Dominates(blk) || h == blk {
			continue
		}
		inside := false
		for _, body := range h.Succs {
			if reachableBlocks(body)[h] && (body == blk || body.Dominates(blk)) {
				inside = true
			}
		}
		if inside {
			return false
		}
		ok = true
	}
	return ok
}

// decidingBranch: the nearest branch that decides whether blk runs — the
// closest strict dominator d ending in an If that blk does not post-dominate —
// and the successor of d that leads away from blk. Branches in front of blk
// that rejoin before it (an unrelated `if` without effect on reaching blk) are
// passed over.
func decidingBranch(blk *ssa.BasicBlock) (d, other *ssa.BasicBlock) {
	fi := info(blk.Parent())
	for x := blk.Idom(); x != nil; x = x.Idom() {
		if len(x.Succs) != 2 || fi.postDominates(blk.Index, x.Index) {
			continue
		}
		for i, s := range x.Succs {
			if s == blk || s.Dominates(blk) {
				return x, x.Succs[1-i]
			}
		}
		return nil, nil
	}
	return nil, nil
}
