package main

import (
	"go/token"

	"golang.org/x/tools/go/ssa"
)

const dnsp = "internal/resolver/dns"

func init() {
	register(&PropDef{
		ID:    "C56",
		Pkgs:  []string{dnsp},
		Claim: "Decides the structural part: in the DNS watcher, between two successive lookups every path passes through the wait on a timer built from the next-resolution time (or leaves on resolver shutdown), and after a successful update additionally through the wait for a re-resolution request; the next-resolution time is now+MinResolutionInterval after success and now+backoff(index) after failure, the index growing on failure and returning to 1 on success; both waits have the shutdown arm and Close cancels and waits for the watcher; target parsing returns the trailing-colon error for an empty port, substitutes localhost for an empty host, and IP formatting brackets exactly the non-IPv4 addresses. Durations are not decided. Each success form of parseTarget (bare IP, host:port, host without port) is returned only under the outcome of its own parse, localhost replaces exactly an empty host, the resolver emits state only after a successful lookup and reports an error only after a failed one, and formatIP never turns a parse failure into success.",
		NotDecided:  []string{"the real-time length of the waits (30s minimum interval, backoff durations)", "the full target grammar (delegated to net.SplitHostPort / netip.ParseAddr)"},
		Assumptions: []string{"net.SplitHostPort and netip.ParseAddr behave as documented"},
		Technique:   "static analysis: must-pass-through path search over the watcher loop, value-origin, dominating guards on go/ssa branch facts",
		Run:         c56,
	})
}

func c56(c *Ctx) {
	c.Ob("pacing", "R3", "watcher loop: lookup -> (on success: wait for a resolve-now request) -> timer wait until the next resolution time -> next lookup; every wait can end on shutdown", 7, func() {
		f := c.fn(dnsp, "dnsResolver.watcher")
		lk := one(c, "lookup call", callsIn(f, Callee(dnsp, "dnsResolver.lookup")))
		fRn := c.field(dnsp, "dnsResolver", "rn")
		taf := func(v ssa.Value) bool { return DataDep(CallRes(ValueCall(GlobalLoad(c.konst("internal/resolver/dns/internal", "TimeAfterFunc"))), 0))(v) }
		var timerSel, rnSel *ssa.Select
		for _, in := range instrsWhere(f, func(in ssa.Instruction) bool { s, ok := in.(*ssa.Select); return ok && s.Blocking }) {
			s := in.(*ssa.Select)
			hasDone := false
			for _, st := range s.States {
				if CallRes(CalleeX("context", "Context.Done"), 0)(st.Chan) {
					hasDone = true
				}
				if taf(st.Chan) {
					timerSel = s
				}
				if FieldLoad(fRn)(st.Chan) {
					rnSel = s
				}
			}
			c.Expect(hasDone, in, f, "wait-ends-on-shutdown", "a wait of the watcher has no shutdown arm")
		}
		if timerSel == nil || rnSel == nil {
			panic(missingStep{"watcher: timer wait or resolve-now wait not found"})
		}
		// the pacing wait ends only on shutdown or when the timer fires: nothing else may cut it short
		for _, st := range timerSel.States {
			c.Expect(taf(st.Chan) || CallRes(CalleeX("context", "Context.Done"), 0)(st.Chan), timerSel, f, "pacing-wait-ends-only-on-timer-or-shutdown", "the wait between lookups can be ended by something other than its timer or shutdown (minimum interval / backoff not honoured)")
		}
		// the outcome of the lookup goes to the channel on the matching arm: the state only after a successful lookup, the error only after a failed one
		lerr := ExtractOf(func(v ssa.Value) bool { return v == lk.Value() }, 1)
		us := one(c, "UpdateState call", callsIn(f, Callee("resolver", "ClientConn.UpdateState")))
		re := one(c, "ReportError call", callsIn(f, Callee("resolver", "ClientConn.ReportError")))
		c.MustFact(us, "state-emitted-only-after-a-successful-lookup", IsNil(lerr))
		c.MustFact(re, "error-reported-only-after-a-failed-lookup", NotNil(lerr))
		c.ArgIs(re, 0, "reports-the-lookup-error", lerr)
		c.Expect(DataDep(ExtractOf(func(v ssa.Value) bool { return v == lk.Value() }, 0))(us.Common().Args[0]), us, f, "emits-the-looked-up-state", "the emitted state is not the lookup's result")
		// the pause is counted from the end of the resolution: every clock reading that feeds the next-resolution time is taken
		// after the lookup returned (a reading taken before a slow lookup would let the next lookup start that much earlier)
		nowCM := ValueCall(GlobalLoad(c.konst("internal/resolver/dns/internal", "TimeNowFunc")))
		nNow := 0
		for _, nc := range callsIn(f, nowCM) {
			nNow++
			c.Expect(instrDominates(lk, nc), nc, f, "clock-read-after-the-lookup", "the time from which the pause before the next lookup is counted is read before the lookup (a slow lookup shortens the minimum interval)")
		}
		c.Expect(nNow >= 2, nil, f, "clock-readings", "expected the success and the failure arm to read the clock")
		q := pathQuery{Fn: f, Starts: []ssa.Instruction{lk}, Barrier: func(in ssa.Instruction) bool { return in == ssa.Instruction(timerSel) }, Target: func(in ssa.Instruction) bool { return in == ssa.Instruction(lk) }}
		c.MustPass("timer-wait-between-lookups", q, lk)
		upd := CallRes(Callee("resolver", "ClientConn.UpdateState"), 0)
		q2 := pathQuery{Fn: f, Starts: []ssa.Instruction{lk}, Barrier: func(in ssa.Instruction) bool { return in == ssa.Instruction(rnSel) }, Target: func(in ssa.Instruction) bool { return in == ssa.Instruction(timerSel) },
			EdgeBlock: func(from, to *ssa.BasicBlock) bool {
				for _, fc := range edgeFacts(from, to) {
					if fc.Kind == "cmp" && fc.Op == token.NEQ && ConstNil(fc.Y) {
						if _, isPhi := fc.X.(*ssa.Phi); isPhi || upd(fc.X) || CallRes(Callee(dnsp, "dnsResolver.lookup"), 1)(fc.X) {
							return true // failure arm
						}
					}
				}
				return false
			}}
		c.MustPass("success-waits-for-resolve-now", q2, rnSel)
		// next resolution time
		add := callsIn(f, CalleeX("time", "Time.Add"))
		nMin, nBack := 0, 0
		for _, a := range add {
			arg := a.Common().Args[1]
			switch {
			case GlobalLoad(c.konst(dnsp, "MinResolutionInterval"))(arg):
				nMin++
			case CallRes(Callee("internal/backoff", "Exponential.Backoff"), 0)(arg):
				nBack++
				bo := strip(arg).(*ssa.Call)
				c.Expect(func() bool { _, ok := bo.Call.Args[1].(*ssa.Phi); return ok }(), a, f, "backoff-by-failure-index", "the failure backoff does not use the running failure index")
			}
		}
		c.Expect(nMin == 1 && nBack == 1, nil, f, "two-next-times", "expected now+MinResolutionInterval (success) and now+backoff (failure)")
		// the timer waits for exactly that time
		okT := false
		for _, st := range timerSel.States {
			if taf(st.Chan) && DataDep(CallRes(CalleeX("time", "Time.Add"), 0))(st.Chan) {
				okT = true
			}
		}
		c.Expect(okT, timerSel, f, "timer-until-next-resolution-time", "the timer does not wait until the computed next resolution time")
		// index: +1 on failure, 1 on success
		okIdx := false
		for _, in := range instrsWhere(f, func(in ssa.Instruction) bool { _, ok := in.(*ssa.Phi); return ok }) {
			inc, one1 := false, false
			for _, lf := range phiLeaves(in.(*ssa.Phi)) {
				if ConstInt(1)(lf.Val) {
					one1 = true
				}
				if b, ok := lf.Val.(*ssa.BinOp); ok && b.Op == token.ADD && ConstInt(1)(b.Y) {
					inc = true
				}
			}
			if inc && one1 {
				okIdx = true
			}
		}
		c.Expect(okIdx, nil, f, "index-grows-and-resets", "the failure index does not grow by one on failure and reset to 1 on success")
		cl := c.fn(dnsp, "dnsResolver.Close")
		cn := one(c, "cancel in Close", callsIn(cl, FieldCall(c.field(dnsp, "dnsResolver", "cancel"))))
		wt := one(c, "wg.Wait in Close", callsIn(cl, CalleeX("sync", "WaitGroup.Wait")))
		c.Dominates(cn, wt, "cancel-then-wait")
	})
	c.Ob("target-parsing", "R2", "parseTarget: empty port after a successful split -> ErrEndsWithColon; empty host -> localhost; formatIP brackets exactly non-IPv4 addresses", 5, func() {
		f := c.fn(dnsp, "parseTarget")
		endsColon := GlobalLoad(c.konst("internal/resolver/dns/internal", "ErrEndsWithColon"))
		n := 0
		for _, r := range returnsOf(f) {
			if r.Block() == f.Recover {
				continue
			}
			if endsColon(strip(r.Results[2])) {
				n++
				c.MustFact(r, "only-for-empty-port", Cmp(AnyV, token.EQL, ConstStr("")))
				c.MustFact(r, "only-after-successful-split", IsNil(CallRes(CalleeX("net", "SplitHostPort"), 2)))
			}
		}
		c.Expect(n == 1, nil, f, "trailing-colon-arm", "no arm returning the trailing-colon error")
		// success returns after the first split never carry an empty port
		okLocal := false
		for _, in := range instrsWhere(f, func(in ssa.Instruction) bool { st, ok := in.(*ssa.Store); return ok && ConstStr("localhost")(st.Val) }) {
			okLocal = true
			c.MustFact(in, "localhost-only-for-empty-host", Cmp(AnyV, token.EQL, ConstStr("")))
		}
		if !okLocal {
			for _, in := range instrsWhere(f, func(in ssa.Instruction) bool { _, ok := in.(*ssa.Phi); return ok }) {
				for _, lf := range phiLeaves(in.(*ssa.Phi)) {
					if ConstStr("localhost")(lf.Val) {
						okLocal = true
					}
				}
			}
		}
		c.Expect(okLocal, nil, f, "empty-host-is-localhost", "an empty host is not replaced by localhost")
		// per success return: which parse produced the result, and under which outcome
		pa := CalleeX("net/netip", "ParseAddr")
		sp := callsIn(f, CalleeX("net", "SplitHostPort"))
		if c.Expect(len(sp) == 2, nil, f, "two-splits", "expected a split of the target and a split of target:defaultPort") {
			var plain, deflt ssa.CallInstruction
			for _, ci := range sp {
				if ParamV("target")(ci.Common().Args[0]) {
					plain = ci
				} else {
					deflt = ci
				}
			}
			if c.Expect(plain != nil && deflt != nil, nil, f, "split-arguments", "the two splits are not of target and of target + ':' + defaultPort") {
				c.ArgIs(deflt, 0, "default-port-appended", BinOpV(token.ADD, BinOpV(token.ADD, ParamV("target"), ConstStr(":")), ParamV("defaultPort")))
				ex := func(ci ssa.CallInstruction, i int) VM {
					return ExtractOf(func(v ssa.Value) bool { return v == ci.Value() }, i)
				}
				nOK := 0
				for _, r := range returnsWhere(f, func(r *ssa.Return) bool { return ConstNil(r.Results[2]) }) {
					nOK++
					h, p := r.Results[0], r.Results[1]
					switch {
					case ParamV("target")(h):
						c.MustFact(r, "bare-address:only-if-it-parses-as-an-IP", IsNil(CallRes(pa, 1)))
						c.Expect(ParamV("defaultPort")(p), r, f, "bare-address:default-port", "a bare IP address does not get the default port")
						c.Unreachable(r, "empty-target-rejected", Cmp(ParamV("target"), token.EQL, ConstStr("")))
					case ex(plain, 1)(p):
						c.MustFact(r, "host:port:only-if-the-split-succeeded", IsNil(ex(plain, 2)))
						c.MustFact(r, "host:port:port-not-empty", Cmp(ex(plain, 1), token.NEQ, ConstStr("")))
						if lvs := valueLeaves(h); len(lvs) >= 2 {
							for _, lf := range lvs {
								e, fs := lf.Val, lf.Facts
								if ConstStr("localhost")(e) {
									_, ok := hasFact(fs, Cmp(ex(plain, 0), token.EQL, ConstStr("")))
									c.Expect(ok, r, f, "localhost-only-for-an-empty-host", "localhost replaces a non-empty host")
								} else {
									_, ok := hasFact(fs, Cmp(ex(plain, 0), token.NEQ, ConstStr("")))
									c.Expect(ok && ex(plain, 0)(e), r, f, "host-kept-when-present", "an empty host is returned as is, or the host is not the split's host")
								}
							}
						} else {
							c.Expect(false, r, f, "host-or-localhost", "the host:port arm does not choose between the split's host and localhost")
						}
					case ex(deflt, 1)(p):
						c.MustFact(r, "no-port:only-if-the-split-with-default-port-succeeded", IsNil(ex(deflt, 2)))
						c.Expect(ex(deflt, 0)(h), r, f, "no-port:host-of-the-same-split", "host and port come from different splits")
					default:
						c.Expect(false, r, f, "success-shape", "unreviewed success return of parseTarget")
					}
				}
				c.Expect(nOK == 3, nil, f, "three-success-forms", "expected three success forms (bare IP, host:port, host without port)")
			}
		}
		missing := GlobalLoad(c.konst("internal/resolver/dns/internal", "ErrMissingAddr"))
		for _, r := range returnsOf(f) {
			if r.Block() != f.Recover && missing(strip(r.Results[2])) {
				c.MustFact(r, "missing-address-only-for-empty-target", Cmp(ParamV("target"), token.EQL, ConstStr("")))
			}
		}
		nE := 0
		for _, fn := range []string{"formatIP"} {
			nE += c.ErrorsPropagate(c.fn(dnsp, fn), fn, nil)
		}
		c.Expect(nE >= 1, nil, nil, "error-sites", "fewer tested helper errors than on the reviewed tree")
		g := c.fn(dnsp, "formatIP")
		is4 := CallRes(CalleeX("net/netip", "Addr.Is4"), 0)
		for _, r := range returnsOf(g) {
			if !ConstNil(r.Results[1]) {
				continue
			}
			if ParamV("addr")(r.Results[0]) {
				c.MustFact(r, "plain-only-for-ipv4", Truth(is4, true))
			} else {
				c.MustFact(r, "brackets-only-for-non-ipv4", Truth(is4, false))
				b, ok := r.Results[0].(*ssa.BinOp)
				c.Expect(ok && b.Op == token.ADD && ConstStr("]")(b.Y), r, g, "bracketed", "non-IPv4 addresses are not bracketed")
			}
		}
	})
}
