package main

import (
	"go/constant"
	"go/token"
	"strings"

	"golang.org/x/tools/go/ssa"
)

const rlsp = "balancer/rls"
const rlsk = "balancer/rls/internal/keys"
const rlsa = "balancer/rls/internal/adaptive"

func init() {
	register(&PropDef{
		ID:    "C41",
		Pkgs:  []string{rlsp, rlsk, rlsa},
		Claim: "Decides the structural part: for each header key builder the value stored is the comma-join of the values of the first configured header name that is present (the name walk stops at the first hit); host/service/method keys are added only when configured and all constant keys are copied; the cache-key string is built from that same map and every variable component written into it goes through an escaper that covers the separators the format uses ('=' and the escape character everywhere, ',' in keys) or a quoting verb, so the encoding is injective; the data cache's accounted size is written only where an entry is inserted (+size), deleted (-size) or resized (-old, +new), each paired in the same function with the entry-map and LRU update; entries are inserted only after a lookup of the same key missed and deleted only with the entry stored under that key; resize evicts the LRU front key while over the limit and stops at an entry not yet evictable; a lookup refreshes recency; the look-back window changes its total only together with the bucket it adds to or clears, ignores samples older than the window, leaves everything untouched when the clock does not advance, and the throttler uses a 30 s window. The key builder for a path is the exact entry before the service-prefix entry, and no keys are produced only without both; cache resize/add/get are skipped only after shutdown (add also for an entry larger than the cache).",
		NotDecided:  []string{"LRU order over all operation histories", "that the sum of the look-back buckets equals the events of exactly the last 30 s (bucket granularity)", "throttle probability arithmetic"},
		Assumptions: []string{"container/list and strings.Replacer contracts"},
		Technique:   "static analysis: value-shape checks of counter updates paired with container updates (conservation), check-then-insert dominance, escaping-discipline check of formatted output (operands traced to replacers whose constant tables cover the format's separators), must-pass-through",
		Run:         c41,
	})
}

// replacerOlds: the constant "old" strings of the strings.NewReplacer call stored to global g (init).
func replacerOlds(c *Ctx, pkg string, g *ssa.Global) map[string]bool {
	out := map[string]bool{}
	for _, f := range c.scope(pkg) {
		for _, b := range f.Blocks {
			for _, in := range b.Instrs {
				st, ok := in.(*ssa.Store)
				if !ok || st.Addr != ssa.Value(g) {
					continue
				}
				call, ok := st.Val.(*ssa.Call)
				if !ok || !CalleeX("strings", "NewReplacer")(&call.Call) {
					return nil
				}
				sl, ok := call.Call.Args[0].(*ssa.Slice)
				if !ok {
					return nil
				}
				al, ok := sl.X.(*ssa.Alloc)
				if !ok {
					return nil
				}
				for _, r := range *al.Referrers() {
					ia, ok := r.(*ssa.IndexAddr)
					if !ok {
						continue
					}
					idx := constOf(ia.Index)
					if idx == nil {
						return nil
					}
					n, _ := constant.Int64Val(idx.Value)
					for _, rr := range *ia.Referrers() {
						if s2, ok := rr.(*ssa.Store); ok && s2.Addr == ssa.Value(ia) && n%2 == 0 {
							k := constOf(s2.Val)
							if k == nil || k.Value.Kind() != constant.String {
								return nil
							}
							out[constant.StringVal(k.Value)] = true
						}
					}
				}
			}
		}
	}
	return out
}

func c41(c *Ctx) {
	c.Ob("first-header-wins", "R2", "buildHeaderKeys: kv[m.key] = Join(md.Get(name), \",\") for the first name with a value, then the name walk stops; RLSKey adds host/service/method only when configured, copies constant keys, and derives Str from the same map", 8, func() {
		f := c.fn(rlsk, "builder.buildHeaderKeys")
		var upd *ssa.MapUpdate
		for _, b := range f.Blocks {
			for _, in := range b.Instrs {
				if mu, ok := in.(*ssa.MapUpdate); ok {
					upd = mu
				}
			}
		}
		get := one(c, "md.Get", callsIn(f, Callee("metadata", "MD.Get")))
		if c.Expect(upd != nil, nil, f, "key-stored", "no key/value stored") {
			call, ok := upd.Value.(*ssa.Call)
			c.Expect(ok && CalleeX("strings", "Join")(&call.Call) && call.Call.Args[0] == get.Value() && ConstStr(",")(call.Call.Args[1]), upd, f, "value-is-comma-join-of-the-header", "the key value is not the comma-join of the header values")
			c.MustFact(upd, "only-for-a-present-header", NotNil(func(v ssa.Value) bool { return v == get.Value() }))
			fKey := c.field(rlsk, "matcher", "key")
			fNames := c.field(rlsk, "matcher", "names")
			c.Expect(FieldLoad(fKey)(upd.Key), upd, f, "stored-under-the-builder-key", "the value is stored under something else than the matcher key")
			c.ArgIs(get, 1, "walks-the-configured-names", RangeValueOf(FieldLoad(fNames)))
			// stop after the first hit: from the update, the next md.Get is reachable only through the outer loop's advance
			var outerAdv ssa.Instruction
			for _, b := range f.Blocks {
				for _, in := range b.Instrs {
					if ia, ok := in.(*ssa.IndexAddr); ok && FieldLoad(c.field(rlsk, "builder", "headerKeys"))(ia.X) {
						if bo, ok := ia.Index.(*ssa.BinOp); ok {
							outerAdv = bo
						}
					}
				}
			}
			if c.Expect(outerAdv != nil, nil, f, "outer-walk", "walk over header key builders not found") {
				c.MustPass("name-walk-stops-at-first-hit", pathQuery{Fn: f, Starts: []ssa.Instruction{upd}, Barrier: func(in ssa.Instruction) bool { return in == outerAdv }, Target: func(in ssa.Instruction) bool { return in == ssa.Instruction(get) }}, upd)
			}
		}
		// the header walk is skipped only for empty metadata
		var walkStart ssa.Instruction
		for _, b := range f.Blocks {
			for _, in := range b.Instrs {
				if ia, ok := in.(*ssa.IndexAddr); ok && FieldLoad(c.field(rlsk, "builder", "headerKeys"))(ia.X) && walkStart == nil {
					walkStart = in
				}
			}
		}
		if c.Expect(walkStart != nil, nil, f, "header-walk", "walk over the header key builders not found") {
			c.MustPass("header-walk-skipped-only-for-empty-metadata", pathQuery{Fn: f, AtEntry: true, Barrier: func(in ssa.Instruction) bool {
				bo, ok := in.(*ssa.BinOp) // the walk's loop test
				return ok && bo.Op == token.LSS && isRangeIndex(bo.X) && LenOf(FieldLoad(c.field(rlsk, "builder", "headerKeys")))(bo.Y)
			}, Target: isReturn, EdgeBlock: func(from, to *ssa.BasicBlock) bool {
				_, ok := hasFact(edgeFacts(from, to), CmpInt(LenOf(ParamV("md")), token.EQL, 0))
				return ok
			}}, nil)
		}
		rk := c.fn(rlsk, "BuilderMap.RLSKey")
		kv := CallRes(Callee(rlsk, "builder.buildHeaderKeys"), 0)
		n := 0
		for _, b := range rk.Blocks {
			for _, in := range b.Instrs {
				mu, ok := in.(*ssa.MapUpdate)
				if !ok {
					continue
				}
				n++
				c.Expect(kv(mu.Map), mu, rk, "extra-keys-go-into-the-header-map", "a key is stored into a different map")
				for _, k := range []string{"hostKey", "serviceKey", "methodKey"} {
					fv := c.field(rlsk, "builder", k)
					if FieldLoad(fv)(mu.Key) {
						c.MustFact(mu, k+":only-when-configured", Cmp(FieldLoad(fv), token.NEQ, ConstStr("")))
					}
				}
			}
		}
		c.Expect(n == 4, nil, rk, "four-extra-stores", "expected host, service, method and constant-key stores")
		// builder selection: the exact "/service/method" entry wins; the "/service/" entry is consulted only without it; no keys only without both
		var exact, wild *ssa.Lookup
		for _, in := range instrsWhere(rk, func(in ssa.Instruction) bool { l, ok := in.(*ssa.Lookup); return ok && l.CommaOk && ParamV("bm")(l.X) }) {
			l := in.(*ssa.Lookup)
			if ParamV("path")(l.Index) {
				exact = l
			} else if sl, ok := l.Index.(*ssa.Slice); ok && ParamV("path")(sl.X) && sl.Low == nil {
				wild = l
			}
		}
		if c.Expect(exact != nil && wild != nil, nil, rk, "builder-lookups", "expected a lookup by full path and one by service prefix") {
			okOf := func(l *ssa.Lookup) VM { return ExtractOf(func(v ssa.Value) bool { return v == ssa.Value(l) }, 1) }
			c.MustFact(wild, "service-entry-only-without-exact-entry", Truth(okOf(exact), false))
			for _, r := range returnsOf(rk) {
				if r.Block() == rk.Recover {
					continue
				}
				if _, isConst := r.Results[0].(*ssa.Const); isConst {
					c.MustFact(r, "no-keys-only-without-any-builder", Truth(okOf(wild), false))
				} else {
					c.Unreachable(r, "keys-need-a-builder", Truth(okOf(exact), false), Truth(okOf(wild), false))
				}
			}
		}
		ms := one(c, "mapToString call", callsIn(rk, Callee(rlsk, "mapToString")))
		c.ArgIs(ms, 0, "string-of-the-same-map", kv)
	})
	c.Ob("key-injective", "R9", "mapToString: every non-constant operand written to the key string is the result of a strings.Replacer whose table escapes the format's separators ('=' and the escape character; ',' for keys), keys are written in sorted order", 4, func() {
		f := c.fn(rlsk, "mapToString")
		nOps := 0
		for _, ci := range callsIn(f, func(cc *ssa.CallCommon) bool {
			fn := calleeFunc(cc)
			return fn != nil && fn.Pkg() != nil && fn.Pkg().Path() == "fmt" && strings.HasPrefix(fn.Name(), "Fprint")
		}) {
			args := ci.Common().Args
			var format string
			var ops []ssa.Value
			if calleeFunc(ci.Common()).Name() == "Fprintf" {
				if k := constOf(args[1]); k != nil {
					format = constant.StringVal(k.Value)
				}
				ops = variadicElems(args[2])
			} else {
				ops = variadicElems(args[1])
			}
			for i, op := range ops {
				if mi, ok := op.(*ssa.MakeInterface); ok {
					op = mi.X
				}
				if constOf(op) != nil {
					continue
				}
				nOps++
				c.inst("formatted operand <- " + c.siteStr(ci))
				if strings.Count(format, "%q") == len(ops) {
					continue // quoted
				}
				call, ok := op.(*ssa.Call)
				if !c.Expect(ok && CalleeX("strings", "Replacer.Replace")(&call.Call), ci, f, "operand-is-escaped", "a variable component is written into the cache-key string without escaping: different key maps can produce the same string") {
					continue
				}
				u, ok := call.Call.Args[0].(*ssa.UnOp)
				var olds map[string]bool
				if ok {
					if g, ok := u.X.(*ssa.Global); ok {
						olds = replacerOlds(c, rlsk, g)
					}
				}
				need := []string{"=", `\`}
				if i == 0 { // key position: also the pair separator
					need = append(need, ",")
				}
				for _, s := range need {
					c.Expect(olds[s], ci, f, "escaper-covers:"+s, "the escaper applied to this component does not escape the separator "+s)
				}
			}
		}
		c.Expect(nOps == 2, nil, f, "two-variable-operands", "expected the key and the value as the only variable components")
		// pairs are separated: a constant "," is written before every pair but the first
		nSep := 0
		for _, ci := range callsIn(f, CalleeX("fmt", "Fprint")) {
			ops := variadicElems(ci.Common().Args[1])
			if len(ops) == 1 {
				if mi, ok := ops[0].(*ssa.MakeInterface); ok && ConstStr(",")(mi.X) {
					nSep++
					c.MustFact(ci, "separator-between-pairs", CmpInt(isRangeIndex, token.NEQ, 0))
					c.MustPass("separator-before-every-pair-but-the-first", pathQuery{Fn: f, StartBlocks: []*ssa.BasicBlock{func() *ssa.BasicBlock {
						for _, b := range f.Blocks {
							for _, in := range b.Instrs {
								if bo, ok := in.(*ssa.BinOp); ok && (bo.Op == token.NEQ || bo.Op == token.EQL) && isRangeIndex(bo.X) && ConstInt(0)(bo.Y) {
									return b
								}
							}
						}
						return f.Blocks[0]
					}()}, Barrier: func(in ssa.Instruction) bool { return in == ssa.Instruction(ci) }, Target: isCallTo(CalleeX("fmt", "Fprintf")),
						EdgeBlock: func(from, to *ssa.BasicBlock) bool {
							_, ok := hasFact(edgeFacts(from, to), CmpInt(isRangeIndex, token.EQL, 0))
							return ok
						}}, ci)
				}
			}
		}
		c.Expect(nSep == 1, nil, f, "pair-separator-written", "no constant separator is written between key=value pairs")
		c.Expect(len(callsIn(f, CalleeX("sort", "Strings"))) == 1, nil, f, "keys-sorted", "keys are not written in sorted order (the string would depend on map iteration order)")
	})
	c.Ob("cache-size", "R12", "dataCache.currentSize changes only in addEntry (+entry.size with entries[key]=entry and lru add), deleteAndCleanup (-entry.size with delete and lru remove), updateEntrySize (-old then +new); insert only after a miss for the same key; delete only with the entry stored under the key", 14, func() {
		dc := "dataCache"
		fCur := c.field(rlsp, dc, "currentSize")
		fEnt := c.field(rlsp, dc, "entries")
		fKeys := c.field(rlsp, dc, "keys")
		fSize := c.field(rlsp, "cacheEntry", "size")
		c.WhoMayMutate("currentSize", fCur, c.scope(rlsp), rlsp+"."+dc+".addEntry", rlsp+"."+dc+".deleteAndCleanup", rlsp+"."+dc+".updateEntrySize")
		c.WhoMayMutate("entries", fEnt, c.scope(rlsp), rlsp+"."+dc+".addEntry", rlsp+"."+dc+".deleteAndCleanup", rlsp+".newDataCache")
		c.WhoMayMutate("cacheEntry.size", fSize, c.scope(rlsp), rlsp+"."+dc+".updateEntrySize")
		sizeOf := func(p string) VM { return FieldLoadOn(fSize, ParamV(p)) }
		add := c.fn(rlsp, dc+".addEntry")
		st := one(c, "currentSize store in addEntry", storesToField(add, fCur))
		c.ValueIs(st, st.Val, "add:+entry.size", BinOpV(token.ADD, FieldLoad(fCur), sizeOf("entry")))
		var ins *ssa.MapUpdate
		for _, b := range add.Blocks {
			for _, in := range b.Instrs {
				if mu, ok := in.(*ssa.MapUpdate); ok && FieldLoad(fEnt)(mu.Map) {
					ins = mu
				}
			}
		}
		if c.Expect(ins != nil, nil, add, "add:inserts", "addEntry does not insert") {
			c.Expect(together(ins, st) && ParamV("key")(ins.Key) && ParamV("entry")(ins.Value), ins, add, "add:insert-paired-with-size", "insertion and size accounting are on different paths or for different entries")
			la := one(c, "lru add", callsIn(add, Callee(rlsp, "lru.addEntry")))
			c.Expect(together(la, st) && FieldLoad(fKeys)(la.Common().Args[0]) && ParamV("key")(la.Common().Args[1]), la, add, "add:lru-paired", "the LRU list is not updated with the insertion")
		}
		del := c.fn(rlsp, dc+".deleteAndCleanup")
		sd := one(c, "currentSize store in deleteAndCleanup", storesToField(del, fCur))
		c.ValueIs(sd, sd.Val, "delete:-entry.size", BinOpV(token.SUB, FieldLoad(fCur), sizeOf("entry")))
		nd := 0
		for _, in := range instrsWhere(del, func(in ssa.Instruction) bool {
			call, ok := in.(*ssa.Call)
			return ok && BuiltinCall("delete")(&call.Call)
		}) {
			call := in.(*ssa.Call)
			nd++
			c.Expect(FieldLoad(fEnt)(call.Call.Args[0]) && ParamV("key")(call.Call.Args[1]) && together(in, sd), in, del, "delete:paired-with-size", "deletion and size accounting are not paired")
		}
		c.Expect(nd == 1, nil, del, "delete:one-delete", "expected one delete in deleteAndCleanup")
		lr := one(c, "lru remove", callsIn(del, Callee(rlsp, "lru.removeEntry")))
		c.Expect(together(lr, sd) && ParamV("key")(lr.Common().Args[1]), lr, del, "delete:lru-paired", "the LRU list is not updated with the deletion")
		up := c.fn(rlsp, dc+".updateEntrySize")
		us := storesToField(up, fCur)
		ss := storesToField(up, fSize)
		if c.Expect(len(us) == 2 && len(ss) == 1, nil, up, "resize-entry:two-steps", "expected -old, size=new, +new in updateEntrySize") {
			c.ValueIs(us[0], us[0].Val, "resize-entry:-old", BinOpV(token.SUB, FieldLoad(fCur), sizeOf("entry")))
			c.ValueIs(ss[0], ss[0].Val, "resize-entry:size=new", ParamV("newSize"))
			c.ValueIs(us[1], us[1].Val, "resize-entry:+new", BinOpV(token.ADD, FieldLoad(fCur), OrV(sizeOf("entry"), ParamV("newSize"))))
			c.Expect(instrDominates(us[0], ss[0]) && instrDominates(ss[0], us[1]), ss[0], up, "resize-entry:order", "the old size is not subtracted before the size changes")
		}
		// call sites
		for _, f := range c.scope(rlsp) {
			for _, ci := range callsIn(f, Callee(rlsp, dc+".deleteAndCleanup")) {
				k, e := ci.Common().Args[1], ci.Common().Args[2]
				ok := false
				if RangeValueOf(FieldLoad(fEnt))(e) && RangeKeyOf(FieldLoad(fEnt))(k) {
					ok = true
				}
				if ex, isEx := e.(*ssa.Extract); isEx && ex.Index == 0 {
					if l, isL := ex.Tuple.(*ssa.Lookup); isL && FieldLoad(fEnt)(l.X) && sameValue(l.Index, k) {
						ok = true
					}
				}
				c.Expect(ok, ci, f, "delete:entry-is-the-one-stored-under-key", "deleteAndCleanup is given an entry that is not the one stored under the key")
			}
			for _, ci := range callsIn(f, Callee(rlsp, dc+".addEntry")) {
				get := CallRes(Callee(rlsp, dc+".getEntry"), 0)
				c.MustFact(ci, "add:only-after-a-miss", IsNil(get))
				okKey := false
				for _, g := range callsIn(f, Callee(rlsp, dc+".getEntry")) {
					if sameValue(g.Common().Args[1], ci.Common().Args[1]) && instrDominates(g, ci) {
						okKey = true
					}
				}
				c.Expect(okKey, ci, f, "add:miss-was-for-the-same-key", "the entry is added under a key other than the one looked up")
			}
		}
	})
	c.Ob("evict-guards", "R2", "resize: evicts the LRU front key only while over the limit, stops at an entry whose earliest eviction time is in the future; lru: add=PushBack, recent=MoveToBack, least=Front; getEntry refreshes recency", 8, func() {
		dc := "dataCache"
		rs := c.fn(rlsp, dc+".resize")
		d := one(c, "eviction in resize", callsIn(rs, Callee(rlsp, dc+".deleteAndCleanup")))
		c.MustFact(d, "evict-only-while-over-limit", Cmp(FieldLoad(c.field(rlsp, dc, "currentSize")), token.GTR, ParamV("size")))
		c.ArgIs(d, 1, "evicts-least-recently-used", CallRes(Callee(rlsp, "lru.getLeastRecentlyUsed"), 0))
		after := func(v ssa.Value) bool {
			call, ok := v.(*ssa.Call)
			return ok && CalleeX("time", "Time.After")(&call.Call) && FieldLoad(c.field(rlsp, "cacheEntry", "earliestEvictTime"))(call.Call.Args[0]) && CallRes(CalleeX("time", "Now"), 0)(call.Call.Args[1])
		}
		c.Unreachable(d, "stops-at-entry-not-yet-evictable", Truth(after, true))
		// stop = leave the loop: from the too-recent arm no further eviction
		st := edgeTargetsWhere(rs, Truth(after, true))
		if c.Expect(len(st) == 1, nil, rs, "too-recent-arm", "too-recent arm not found") {
			c.MustPass("no-eviction-past-a-too-recent-entry", pathQuery{Fn: rs, StartBlocks: st, Target: func(in ssa.Instruction) bool { return in == ssa.Instruction(d) }}, nil)
		}
		for _, s := range storesToField(rs, c.field(rlsp, dc, "maxSize")) {
			c.ValueIs(s, s.Val, "limit-updated", ParamV("size"))
		}
		// the operations are skipped only for the stated reasons: after shutdown (all three), for an entry larger than the whole cache (add)
		fired := CallRes(Callee("internal/grpcsync", "Event.HasFired"), 0)
		skipOK := func(extra ...FM) func(from, to *ssa.BasicBlock) bool {
			return func(from, to *ssa.BasicBlock) bool {
				fs := edgeFacts(from, to)
				if _, ok := hasFact(fs, Truth(fired, true)); ok {
					return true
				}
				for _, fm := range extra {
					if _, ok := hasFact(fs, fm); ok {
						return true
					}
				}
				return false
			}
		}
		for _, s := range storesToField(rs, c.field(rlsp, dc, "maxSize")) {
			s := s
			c.MustPass("resize-skipped-only-after-shutdown", pathQuery{Fn: rs, AtEntry: true, Barrier: func(in ssa.Instruction) bool { return in == ssa.Instruction(s) }, Target: isReturn, EdgeBlock: skipOK()}, s)
		}
		{
			ae := c.fn(rlsp, dc+".addEntry")
			fSize := c.field(rlsp, "cacheEntry", "size")
			fMax := c.field(rlsp, dc, "maxSize")
			tooBig := FM(func(f Fact) bool { return Cmp(FieldLoad(fSize), token.GTR, FieldLoad(fMax))(f) || Cmp(FieldLoad(fSize), token.GEQ, FieldLoad(fMax))(f) })
			for _, in := range instrsWhere(ae, func(in ssa.Instruction) bool { mu, ok := in.(*ssa.MapUpdate); return ok && FieldLoad(c.field(rlsp, dc, "entries"))(mu.Map) }) {
				in := in
				c.MustPass("add-skipped-only-after-shutdown-or-for-an-oversized-entry", pathQuery{Fn: ae, AtEntry: true, Barrier: func(x ssa.Instruction) bool { return x == in }, Target: isReturn, EdgeBlock: skipOK(tooBig)}, in)
				c.Unreachable(in, "oversized-entry-not-added", tooBig)
			}
			ge := c.fn(rlsp, dc+".getEntry")
			for _, r := range returnsOf(ge) {
				if r.Block() != ge.Recover && ConstNil(r.Results[0]) {
					c.MustFactAny(r, "miss-only-after-shutdown-or-without-entry", Truth(fired, true), Truth(CommaOkOf(FieldLoad(c.field(rlsp, dc, "entries"))), false))
				}
			}
		}
		lru := func(fn, callee string) {
			f := c.fn(rlsp, "lru."+fn)
			c.Expect(len(callsIn(f, CalleeX("container/list", "List."+callee))) == 1, nil, f, "lru."+fn+"="+callee, "lru."+fn+" does not use list."+callee)
		}
		lru("addEntry", "PushBack")
		lru("makeRecent", "MoveToBack")
		lru("getLeastRecentlyUsed", "Front")
		lru("removeEntry", "Remove")
		ge := c.fn(rlsp, dc+".getEntry")
		mr := one(c, "makeRecent in getEntry", callsIn(ge, Callee(rlsp, "lru.makeRecent")))
		c.MustFact(mr, "recency-refreshed-on-hit", Truth(CommaOkOf(FieldLoad(c.field(rlsp, dc, "entries"))), true))
		c.ArgIs(mr, 1, "recency-of-the-looked-up-key", ParamV("key"))
		ae := c.fn(rlsp, dc+".addEntry")
		for _, r := range callsIn(ae, Callee(rlsp, dc+".resize")) {
			c.ArgIs(r, 1, "add-evicts-down-to-max", FieldLoad(c.field(rlsp, dc, "maxSize")))
		}
		if rsz := callsIn(ae, Callee(rlsp, dc+".resize")); c.Expect(len(rsz) == 1, nil, ae, "add-triggers-eviction", "adding an entry never evicts") {
			fCur := c.field(rlsp, dc, "currentSize")
			fMax := c.field(rlsp, dc, "maxSize")
			var ins ssa.Instruction
			for _, b := range ae.Blocks {
				for _, in := range b.Instrs {
					if mu, ok := in.(*ssa.MapUpdate); ok && FieldLoad(c.field(rlsp, dc, "entries"))(mu.Map) {
						ins = mu
					}
				}
			}
			if ins != nil {
				c.MustPass("over-limit-after-add-always-evicts", pathQuery{Fn: ae, Starts: []ssa.Instruction{ins}, Barrier: func(in ssa.Instruction) bool { return in == ssa.Instruction(rsz[0]) }, Target: isReturn,
					EdgeBlock: func(from, to *ssa.BasicBlock) bool {
						_, ok := hasFact(edgeFacts(from, to), Cmp(FieldLoad(fCur), token.LEQ, FieldLoad(fMax)))
						return ok
					}}, ins)
			}
		}
	})
	c.Ob("lookback", "R12", "lookback: total changes only with the bucket it mirrors (+v with buf[pos%bins]+=v; -buf[i] with buf[i]=0); samples at least a window behind the head are dropped; nothing changes when the clock does not advance; New() uses 30 s", 8, func() {
		lb := "lookback"
		fTot := c.field(rlsa, lb, "total")
		fBuf := c.field(rlsa, lb, "buf")
		fHead := c.field(rlsa, lb, "head")
		fBins := c.field(rlsa, lb, "bins")
		c.WhoMayMutate("total", fTot, c.scope(rlsa), rlsa+"."+lb+".add", rlsa+"."+lb+".advance")
		bufStores := func(f *ssa.Function) []*ssa.Store {
			var out []*ssa.Store
			for _, b := range f.Blocks {
				for _, in := range b.Instrs {
					if st, ok := in.(*ssa.Store); ok {
						if ia, ok := st.Addr.(*ssa.IndexAddr); ok && FieldLoad(fBuf)(ia.X) {
							out = append(out, st)
						}
					}
				}
			}
			return out
		}
		add := c.fn(rlsa, lb+".add")
		bs, ts := bufStores(add), storesToField(add, fTot)
		if c.Expect(len(bs) == 1 && len(ts) == 1, nil, add, "add:one-bucket-one-total", "expected one bucket update and one total update in add") {
			ia := bs[0].Addr.(*ssa.IndexAddr)
			pos := CallRes(Callee(rlsa, lb+".advance"), 0)
			c.Expect(BinOpV(token.REM, pos, FieldLoad(fBins))(ia.Index), bs[0], add, "add:bucket-is-pos-mod-bins", "the sample is added to a bucket other than pos mod bins")
			c.ValueIs(bs[0], bs[0].Val, "add:bucket+=v", BinOpV(token.ADD, func(v ssa.Value) bool { u, ok := v.(*ssa.UnOp); return ok && u.X == ssa.Value(ia) || ok && sameIndexAddr(u.X, ia) }, ParamV("v")))
			c.ValueIs(ts[0], ts[0].Val, "add:total+=v", BinOpV(token.ADD, FieldLoad(fTot), ParamV("v")))
			c.Expect(together(bs[0], ts[0]), ts[0], add, "add:bucket-and-total-together", "bucket and total are updated on different paths")
			c.Unreachable(bs[0], "add:too-old-sample-dropped", Cmp(BinOpV(token.SUB, FieldLoad(fHead), pos), token.GEQ, FieldLoad(fBins)))
		}
		adv := c.fn(rlsa, lb+".advance")
		bs, ts = bufStores(adv), storesToField(adv, fTot)
		if c.Expect(len(bs) == 1 && len(ts) == 1, nil, adv, "advance:one-bucket-one-total", "expected one bucket clear and one total update in advance") {
			ia := bs[0].Addr.(*ssa.IndexAddr)
			c.ValueIs(bs[0], bs[0].Val, "advance:bucket-cleared", ConstInt(0))
			c.ValueIs(ts[0], ts[0].Val, "advance:total-=bucket", BinOpV(token.SUB, FieldLoad(fTot), func(v ssa.Value) bool { u, ok := v.(*ssa.UnOp); return ok && sameIndexAddr(u.X, ia) }))
			c.Expect(thenAlways(ts[0], bs[0]), ts[0], adv, "advance:subtract-then-clear", "the bucket is cleared before it is subtracted from the total")
			newHead := func(v ssa.Value) bool {
				b, ok := v.(*ssa.BinOp)
				return ok && b.Op == token.QUO && CallRes(CalleeX("time", "Time.UnixNano"), 0)(b.X)
			}
			notAdvanced := Cmp(newHead, token.LEQ, FieldLoad(fHead))
			for _, st := range append(append([]*ssa.Store{}, bs...), append(ts, storesToField(adv, fHead)...)...) {
				c.Unreachable(st, "advance:untouched-when-clock-does-not-advance", notAdvanced)
			}
			// cleared buckets: (head + j + 1) mod bins, j < min(bins, new-head)
			c.Expect(BinOpV(token.REM, BinOpV(token.ADD, BinOpV(token.ADD, FieldLoad(fHead), AnyV), ConstInt(1)), FieldLoad(fBins))(ia.Index), bs[0], adv, "advance:clears-buckets-after-head", "the cleared bucket is not (head+j+1) mod bins")
			mn := false
			for _, in := range instrsWhere(adv, func(in ssa.Instruction) bool {
				call, ok := in.(*ssa.Call)
				return ok && BuiltinCall("min")(&call.Call)
			}) {
				call := in.(*ssa.Call)
				a, b := call.Call.Args[0], call.Call.Args[1]
				d := BinOpV(token.SUB, newHead, FieldLoad(fHead))
				mn = FieldLoad(fBins)(a) && d(b) || FieldLoad(fBins)(b) && d(a)
			}
			c.Expect(mn, nil, adv, "advance:at-most-one-window-cleared", "the number of cleared buckets is not min(bins, new head - head)")
			for _, st := range storesToField(adv, fHead) {
				c.ValueIs(st, st.Val, "advance:head-moves-to-now", newHead)
			}
		}
		nw := c.fn(rlsa, "New")
		call := one(c, "newWithArgs", callsIn(nw, Callee(rlsa, "newWithArgs")))
		c.ArgIs(call, 0, "window-is-30s", ConstInt(30_000_000_000))
		na := c.fn(rlsa, "newWithArgs")
		for _, l := range callsIn(na, Callee(rlsa, "newLookback")) {
			c.ArgIs(l, 1, "both-windows-share-the-duration", ParamV("duration"))
		}
		c.Expect(len(callsIn(na, Callee(rlsa, "newLookback"))) == 2, nil, na, "two-windows", "expected accepts and throttles windows")
	})
}

func sameIndexAddr(v ssa.Value, ia *ssa.IndexAddr) bool {
	x, ok := v.(*ssa.IndexAddr)
	if !ok {
		return false
	}
	if x == ia {
		return true
	}
	sameBase := sameValue(x.X, ia.X)
	if !sameBase {
		// two loads of the same field of the same receiver
		a, okA := x.X.(*ssa.UnOp)
		b, okB := ia.X.(*ssa.UnOp)
		if okA && okB {
			fa, okFA := a.X.(*ssa.FieldAddr)
			fb, okFB := b.X.(*ssa.FieldAddr)
			sameBase = okFA && okFB && sameField(fieldOfAddr(fa), fieldOfAddr(fb)) && (fa.X == fb.X || sameValue(fa.X, fb.X))
		}
	}
	return sameBase && (x.Index == ia.Index || sameValue(x.Index, ia.Index))
}

// variadicElems: elements stored into the varargs array behind slice v.
func variadicElems(v ssa.Value) []ssa.Value {
	sl, ok := v.(*ssa.Slice)
	if !ok {
		return nil
	}
	al, ok := sl.X.(*ssa.Alloc)
	if !ok {
		return nil
	}
	type ie struct {
		i int64
		v ssa.Value
	}
	var es []ie
	for _, r := range *al.Referrers() {
		if ia, ok := r.(*ssa.IndexAddr); ok {
			k := constOf(ia.Index)
			if k == nil {
				continue
			}
			n, _ := constant.Int64Val(k.Value)
			for _, rr := range *ia.Referrers() {
				if st, ok := rr.(*ssa.Store); ok && st.Addr == ssa.Value(ia) {
					es = append(es, ie{n, st.Val})
				}
			}
		}
	}
	out := make([]ssa.Value, len(es))
	for _, e := range es {
		if int(e.i) < len(out) {
			out[e.i] = e.v
		}
	}
	return out
}
