package main

import (
	"strings"
	"go/token"
	"go/types"

	"golang.org/x/tools/go/ssa"
)

func init() {
	register(&PropDef{
		ID:    "C30",
		Pkgs:  []string{"grpc"},
		Claim: "Decides the structural part: the channel state is stored only when the current state is not SHUTDOWN and differs from the new one, under the state mutex, and every stored change closes-and-clears the notification channel; WaitForStateChange obtains the notification channel before it reads the state; a subchannel's state is stored in exactly one function, whose every caller holds the subchannel mutex, which always forwards the new state to the LB-policy wrapper, and that forwarding only schedules a closure on the wrapper's serializer which drops the update once the balancer is gone; READY is reported only from the health-check start (when health checking does not manage the state) or by the health checker's callback, and that callback applies a report only while the subchannel still uses the very transport the checker was started for; after TRANSIENT_FAILURE the connection loop reports only IDLE. A state report is dropped only when the state is unchanged, and the subchannel mutex is balanced in every subchannel function (including the hand-over to the connection loop, which is entered holding it and releases it on every exit).",
		NotDecided:  []string{"missed or reordered notifications across schedules", "the full legal-transition relation of subchannel states over all event orders"},
		Assumptions: []string{"callbacks on one serializer run in FIFO order (decided under C31)"},
		Technique:   "static analysis: who-may-write, dominating guards on go/ssa branch facts, must-lockset with call-site checking, ordering (dominance), must-pass-through",
		Run:         c30,
	})
}

func c30(c *Ctx) {
	csm := func(f string) *types.Var { return c.field("grpc", "connectivityStateManager", f) }
	c.Ob("shutdown-absorbing", "R2", "channel state: stored only on state != SHUTDOWN and state != new, under the manager's mutex; every change closes and nils the notify channel; state/notify channel accessed only under the mutex", 8, func() {
		f := c.fn("grpc", "connectivityStateManager.updateState")
		st := one(c, "store of csm.state", storesToField(f, csm("state")))
		c.MustFact(st, "shutdown-is-final", Cmp(FieldLoad(csm("state")), token.NEQ, ConstOfObj(c.konst("connectivity", "Shutdown"))))
		c.MustFact(st, "only-real-changes", Cmp(FieldLoad(csm("state")), token.NEQ, ParamV("state")))
		c.ValueIs(st, st.Val, "stores-the-new-state", ParamV("state"))
		c.WhoMayMutate("csm.state", csm("state"), c.scope("grpc"), "grpc.connectivityStateManager.updateState", "grpc.newConnectivityStateManager")
		c.GuardedBy(GuardSpec{Label: "csm", Mu: csm("mu"), Fields: []*types.Var{csm("state"), csm("notifyChan")}, Scope: c.scope("grpc")})
		cl := one(c, "close(notifyChan)", callsIn(f, BuiltinCall("close")))
		c.ArgIs(cl, 0, "closes-notify-channel", FieldLoad(csm("notifyChan")))
		c.Dominates(st, cl, "state-stored-before-waking-waiters")
		// every change wakes waiters: from the store to return, pass close unless the channel is nil
		q := pathQuery{Fn: f, Starts: []ssa.Instruction{st}, Barrier: func(in ssa.Instruction) bool { return in == ssa.Instruction(cl) }, Target: isReturn,
			EdgeBlock: func(from, to *ssa.BasicBlock) bool {
				_, ok := hasFact(edgeFacts(from, to), IsNil(FieldLoad(csm("notifyChan"))))
				return ok
			}}
		c.MustPass("change-always-wakes-waiters", q, cl)
		nilSt := false
		for _, s := range storesToField(f, csm("notifyChan")) {
			if ConstNil(s.Val) {
				nilSt = true
				c.Dominates(cl, s, "close-then-clear")
			}
		}
		c.Expect(nilSt, nil, f, "channel-cleared-after-close", "the closed notify channel is not cleared (next waiter would reuse a closed channel - acceptable - or it would be closed twice)")
	})
	c.Ob("wait-no-miss", "R2", "WaitForStateChange takes the notification channel before reading the state, returns true at once if the state already differs, and otherwise waits on that channel and the context", 3, func() {
		f := c.fn("grpc", "ClientConn.WaitForStateChange")
		gc := one(c, "getNotifyChan call", callsIn(f, Callee("grpc", "connectivityStateManager.getNotifyChan")))
		gs := one(c, "getState call", callsIn(f, Callee("grpc", "connectivityStateManager.getState")))
		c.Dominates(gc, gs, "channel-before-state")
		sel := one(c, "select in WaitForStateChange", instrsWhere(f, func(in ssa.Instruction) bool { _, ok := in.(*ssa.Select); return ok })).(*ssa.Select)
		okCh, okCtx := false, false
		for _, s := range sel.States {
			if s.Chan == gc.Value() || strip(s.Chan) == gc.Value() {
				okCh = true
			}
			if doneOf(ParamV("ctx"))(s.Chan) {
				okCtx = true
			}
		}
		c.Expect(okCh && okCtx && sel.Blocking, sel, f, "waits-on-that-channel-and-ctx", "WaitForStateChange does not wait on the channel obtained before the state read and on the context")
		c.MustFact(sel, "waits-only-if-state-unchanged", Cmp(func(v ssa.Value) bool { return v == gs.Value() }, token.EQL, ParamV("sourceState")))
	})
	c.Ob("ac-state", "R1", "subchannel state: stored only in updateConnectivityState; every caller holds the subchannel mutex; the new state is always forwarded to the LB-policy wrapper; READY comes only from health-check start/callback; the health callback applies a report only if the subchannel still has the checker's own transport", 14, func() {
		fSt := c.field("grpc", "addrConn", "state")
		mu := c.field("grpc", "addrConn", "mu")
		c.WhoMayMutate("addrConn.state", fSt, c.scope("grpc"), "grpc.addrConn.updateConnectivityState", "grpc.ClientConn.newAddrConnLocked")
		up := c.fn("grpc", "addrConn.updateConnectivityState")
		st := one(c, "store of ac.state", storesToField(up, fSt))
		c.ValueIs(st, st.Val, "stores-the-new-state", ParamV("s"))
		fw := one(c, "acbw.updateState call", callsIn(up, Callee("grpc", "acBalancerWrapper.updateState")))
		c.ArgIs(fw, 1, "forwards-the-new-state", ParamV("s"))
		c.MustPass("every-change-is-forwarded", pathQuery{Fn: up, Starts: []ssa.Instruction{st}, Barrier: func(in ssa.Instruction) bool { return in == ssa.Instruction(fw) }, Target: isReturn}, fw)
		// conversely: the report is dropped (return before the store) only when the state is unchanged
		for _, r := range returnsOf(up) {
			if r.Block() == up.Recover || instrDominates(st, r) {
				continue
			}
			c.EnteredOnlyWhen(r.Block(), "report-dropped-only-when-unchanged", Cmp(FieldLoad(fSt), token.EQL, ParamV("s")))
		}
		// the subchannel mutex is released on every exit of every function that takes it; the
		// connection loop is entered with it held and releases it on every exit
		rt := c.fn("grpc", "addrConn.resetTransportAndUnlock")
		nBal := 0
		for _, f := range c.scope("grpc") {
			top := shortName(topFunc(f))
			if !strings.HasPrefix(top, "grpc.addrConn.") && top != "grpc.ClientConn.newAddrConnLocked" {
				continue
			}
			nBal++
			if f == rt {
				c.lockBalanceFrom("ac.mu", mu, f, true, nil)
			} else {
				c.lockBalanceFrom("ac.mu", mu, f, false, CallOfFn(rt))
			}
		}
		c.Expect(nBal >= 10, nil, nil, "lock-balance-scope", "fewer subchannel functions than expected")
		// callers hold ac.mu
		upd := Callee("grpc", "addrConn.updateConnectivityState")
		ready := ConstOfObj(c.konst("connectivity", "Ready"))
		nCallers := 0
		entryLocked := map[string]bool{"grpc.addrConn.resetTransportAndUnlock": true, "grpc.addrConn.startHealthCheck": true}
		for _, f := range c.scope("grpc") {
			cs := callsIn(f, upd)
			if len(cs) == 0 {
				continue
			}
			entry := lockSet{}
			top := shortName(f)
			if entryLocked[top] {
				entry[mu] = true // documented "ac.mu must be held by the caller"
			}
			// the deferred closure of startHealthCheck runs at its return, with the caller's lock still held
			if f.Parent() != nil && shortName(f.Parent()) == "grpc.addrConn.startHealthCheck" && len(callsIn(f, CalleeX("sync", "Mutex.Lock"))) == 0 {
				entry[mu] = true
			}
			ls := locksets(f, lockOpts{Entry: entry})
			for _, ci := range cs {
				nCallers++
				c.inst("state report <- " + c.siteStr(ci))
				c.nontrivial("acstate" + c.P.Pos(ci.Pos()))
				if !ls[ci][mu] {
					c.violate(ci, f, "state-report-without-mu", "the subchannel state is changed without the subchannel mutex", nil)
				}
				if ready(ci.Common().Args[1]) {
					c.Expect(shortName(topFunc(f)) == "grpc.addrConn.startHealthCheck", ci, f, "READY-only-from-health-start", "READY is reported outside the health-check start")
				}
			}
		}
		c.Expect(nCallers >= 9, nil, nil, "report-sites", "fewer state-report sites than confirmed by hand")
		// callers of the two "lock held by caller" functions do hold it
		for name := range entryLocked {
			for _, f := range c.scope("grpc") {
				for _, ci := range callsIn(f, CallOfFn(c.P.LookupFunc("grpc", name[len("grpc."):]))) {
					// `go helper()` with the mutex held hands the lock over to the new goroutine (the helper unlocks it)
					ls := locksets(f, lockOpts{})
					c.inst("call of " + name + " <- " + c.siteStr(ci))
					if !ls[ci][mu] {
						c.violate(ci, f, "locked-helper-called-unlocked", name+" is called without the subchannel mutex", nil)
					}
				}
			}
		}
		// health callback: applies only for the checker's own transport
		sh := c.fn("grpc", "addrConn.startHealthCheck")
		fTr := c.field("grpc", "addrConn", "transport")
		var cb *ssa.Function
		for _, a := range sh.AnonFuncs {
			if len(callsIn(a, upd)) == 1 && len(a.Params) == 2 {
				cb = a
			}
		}
		if cb == nil {
			panic(missingStep{"no health-state callback in startHealthCheck"})
		}
		rep := callsIn(cb, upd)[0]
		var curFV *ssa.FreeVar // the captured variable the subchannel's transport is compared with
		sameTr := func(fc Fact) bool {
			if fc.Kind != "cmp" || fc.Op != token.EQL {
				return false
			}
			isCur := func(v ssa.Value) bool {
				u, ok := strip(v).(*ssa.UnOp)
				if !ok {
					return false
				}
				fv, isFV := u.X.(*ssa.FreeVar)
				if isFV {
					curFV = fv
				}
				return isFV
			}
			return FieldLoad(fTr)(fc.X) && isCur(fc.Y) || FieldLoad(fTr)(fc.Y) && isCur(fc.X)
		}
		c.MustFact(rep, "report-only-for-the-checkers-own-transport", sameTr)
		// currentTr is the transport at the time the checker was started
		for _, b := range sh.Blocks {
			for _, in := range b.Instrs {
				if mc, ok := in.(*ssa.MakeClosure); ok && mc.Fn == cb {
					for i, fv := range cb.FreeVars {
						if fv == curFV {
							al, _ := mc.Bindings[i].(*ssa.Alloc)
							okB := false
							if al != nil {
								for _, s := range storesTo(al) {
									if FieldLoad(fTr)(s.Val) {
										okB = true
									}
								}
							}
							c.Expect(okB, in, sh, "checker-remembers-its-transport", "the transport remembered for the health checker is not the subchannel's transport at start")
						}
					}
				}
			}
		}
	})
	c.Ob("notify-lb", "R3", "forwarding to the LB policy only schedules a closure on the wrapper's serializer; the closure drops the update when the serializer's context ended or the balancer is gone, and delivers the same state it was given", 2, func() {
		f := c.fn("grpc", "acBalancerWrapper.updateState")
		sc := one(c, "serializer.TrySchedule", callsIn(f, Callee("internal/grpcsync", "CallbackSerializer.TrySchedule")))
		cl := funcOfValue(sc.Common().Args[1])
		if cl == nil {
			panic(missingStep{"updateState does not schedule a closure"})
		}
		fBal := c.field("grpc", "ccBalancerWrapper", "balancer")
		fL := c.field("grpc", "acBalancerWrapper", "stateListener")
		l := one(c, "state listener invocation", callsIn(cl, FieldCall(fL)))
		c.MustFact(l, "balancer-still-there", NotNil(FieldLoad(fBal)))
		c.MustFact(l, "serializer-not-cancelled", IsNil(CallRes(CalleeX("context", "Context.Err"), 0)))
		for _, in := range f.Blocks[0].Instrs {
			if ci, ok := in.(ssa.CallInstruction); ok && ci != sc {
				if _, isB := ci.Common().Value.(*ssa.Builtin); !isB && ci.Common().StaticCallee() != nil && ci.Common().StaticCallee().Pkg != nil {
					c.Expect(false, in, f, "only-schedules", "updateState does something else than scheduling on the serializer")
				}
			}
		}
	})
	c.Ob("tf-exit", "R7", "connection loop: the states it reports are CONNECTING before the attempt, TRANSIENT_FAILURE on failure and IDLE after the backoff wait - nothing else (READY comes from the health-check start)", 4, func() {
		f := c.fn("grpc", "addrConn.resetTransportAndUnlock")
		want := map[string]bool{}
		for _, ci := range callsIn(f, Callee("grpc", "addrConn.updateConnectivityState")) {
			k := constOf(ci.Common().Args[1])
			if !c.Expect(k != nil, ci, f, "constant-state", "the connection loop reports a non-constant state") {
				continue
			}
			for _, n := range []string{"Connecting", "TransientFailure", "Idle"} {
				if ConstOfObj(c.konst("connectivity", n))(k) {
					want[n] = true
				}
			}
			c.Expect(ConstOfObj(c.konst("connectivity", "Connecting"))(k) || ConstOfObj(c.konst("connectivity", "TransientFailure"))(k) || ConstOfObj(c.konst("connectivity", "Idle"))(k), ci, f, "allowed-state", "the connection loop reports a state other than CONNECTING / TRANSIENT_FAILURE / IDLE")
		}
		c.Expect(len(want) == 3, nil, f, "three-states", "expected CONNECTING, TRANSIENT_FAILURE and IDLE reports in the connection loop")
		// nothing is reported for a subchannel that was torn down meanwhile: every report follows a test "context still alive"
		// made after the mutex was (re)acquired for that report
		isErr := func(v ssa.Value) (*ssa.Call, bool) {
			call, ok := v.(*ssa.Call)
			if ok && CalleeX("context", "Context.Err")(&call.Call) {
				return call, true
			}
			return nil, false
		}
		mu := c.field("grpc", "addrConn", "mu")
		for _, ci := range callsIn(f, Callee("grpc", "addrConn.updateConnectivityState")) {
			// the acquisition that this report runs under: the last Lock of ac.mu dominating it (none: the caller's)
			var lock ssa.Instruction
			for _, l := range callsIn(f, CalleeX("sync", "Mutex.Lock")) {
				if mv, _ := mutexOfCall(l.Common()); mv != nil && sameField(mv, mu) && instrDominates(l, ci) {
					if lock == nil || instrDominates(lock, l) {
						lock = l
					}
				}
			}
			fresh := false
			for _, fc := range FactsAt(ci) {
				if fc.Kind != "cmp" || fc.Op != token.EQL || !ConstNil(fc.Y) {
					continue
				}
				if call, ok := isErr(fc.X); ok && (lock == nil || instrDominates(lock, call)) {
					fresh = true
				}
			}
			c.Expect(fresh, ci, f, "report-only-while-the-subchannel-is-alive", "a state is reported without a 'context still alive' test made under the mutex acquisition the report runs in (a torn-down subchannel could report a state after SHUTDOWN)")
		}
	})
}
