package main

import (
	"strings"

	"golang.org/x/tools/go/ssa"
)

func init() {
	register(&PropDef{
		ID:    "C23",
		Pkgs:  []string{"grpc"},
		Claim: "Decides the structural part: the Done callback of a pick result is invoked only by the picker wrapper (when the picked subchannel turned out not ready, then re-pick) and by the attempt's finish, which tests-and-sets its finished flag under the attempt mutex before invoking it; a successful pick returns exactly the result of the picker consulted in that iteration without invoking Done; the attempt's pick result is assigned only where the transport is obtained; every retry finishes the previous attempt before creating the next; (thorough) every wrapper that replaces Done in any LB policy chains to the callback it replaced on all paths.",
		NotDecided:  []string{"exactly-once over all interleavings of cancellation, retry and transport failure (schedule property)", "LB policies outside this module"},
		Assumptions: []string{"a picker returning a SubConn not created by this channel is outside the contract (that arm neither returns nor calls Done)"},
		Technique:   "static analysis: who-may-call on a func-typed field, dominating guards, must-pass-through path search, must-lockset, once-only test-and-set shape, sibling cross-check of wrapper closures",
		Run:         c23,
	})
}

func excludedPkg(f *ssa.Function) bool {
	p := shortName(topFunc(f))
	for _, pre := range []string{"examples/", "interop", "benchmark", "internal/testutils", "test/", "internal/stubserver", "xds/internal/test", "internal/xds/testutils", "testdata"} {
		if strings.HasPrefix(p, pre) {
			return true
		}
	}
	return false
}

func c23(c *Ctx) {
	fDone := c.field("balancer", "PickResult", "Done")
	c.Ob("done-callers", "R1", "the Done field of a pick result is invoked (as a field) only in the picker wrapper's pick loop and in the attempt's finish", 2, func() {
		c.WhoMayCall("PickResult.Done", FieldCall(fDone), c.scope("grpc"), "grpc.pickerWrapper.pick", "grpc.csAttempt.finish")
	})
	c.Ob("pick-paths", "R2", "in the pick loop, after an error-free Pick: either the ready transport is returned together with that very pick result and Done is not invoked, or (transport not ready) Done is invoked if non-nil before the loop repeats", 7, func() {
		f := c.fn("grpc", "pickerWrapper.pick")
		pickErr := CallRes(Callee("balancer", "Picker.Pick"), 1)
		ready := CallRes(Callee("grpc", "addrConn.getReadyTransport"), 0)
		done := one(c, "Done invocation in pick", callsIn(f, FieldCall(fDone)))
		c.MustFact(done, "pick-succeeded", IsNil(pickErr))
		c.MustFact(done, "transport-not-ready", IsNil(ready))
		c.MustFact(done, "done-non-nil", NotNil(FieldLoad(fDone)))
		c.ArgIs(done, 0, "empty-done-info", func(v ssa.Value) bool { return true })
		grt := one(c, "getReadyTransport call", callsIn(f, Callee("grpc", "addrConn.getReadyTransport")))
		// from "transport not ready" no path may reach the next iteration or a return without Done (unless Done is nil)
		loopHead := Callee("std:sync/atomic", "Pointer.Load")
		q := pathQuery{Fn: f, Starts: []ssa.Instruction{grt},
			Barrier: isCallTo(FieldCall(fDone)),
			Target:  orInstr(isReturn, isCallTo(loopHead)),
			EdgeBlock: func(from, to *ssa.BasicBlock) bool {
				fs := edgeFacts(from, to)
				if _, ok := hasFact(fs, NotNil(ready)); ok {
					return true
				}
				_, ok := hasFact(fs, IsNil(FieldLoad(fDone)))
				return ok
			}}
		c.MustPass("not-ready-calls-Done-before-repick", q, grt)
		// success return
		fRes := c.field("grpc", "pick", "result")
		fTr := c.field("grpc", "pick", "transport")
		n := 0
		for _, r := range successReturns(f, 1) {
			if r.Block() == f.Recover {
				continue
			}
			n++
			c.MustFact(r, "return-only-if-ready", NotNil(ready))
			c.MustFact(r, "return-only-if-pick-ok", IsNil(pickErr))
			c.Expect(DataDep(CallRes(Callee("balancer", "Picker.Pick"), 0))(r.Results[0]), r, f, "returns-this-iterations-result", "the returned pick does not carry the result of this iteration's Pick")
			c.Expect(DataDep(ready)(r.Results[0]), r, f, "returns-the-ready-transport", "the returned pick does not carry the transport just checked")
			// Done must not have been invoked on the way to this return in this iteration
			q2 := pathQuery{Fn: f, Starts: []ssa.Instruction{done}, Target: func(in ssa.Instruction) bool { return in == ssa.Instruction(r) },
				Barrier: isCallTo(Callee("balancer", "Picker.Pick"))}
			c.MustPass("no-Done-then-return-same-result", q2, r)
		}
		_, _ = fRes, fTr
		c.Expect(n == 1, nil, f, "one-success-return", "expected exactly one success return in pick")
	})
	c.Ob("finish-once", "R11", "the attempt's finish tests-and-sets its finished flag under the attempt mutex before invoking Done; the pick result of an attempt is assigned in one place", 4, func() {
		f := c.fn("grpc", "csAttempt.finish")
		fFin := c.field("grpc", "csAttempt", "finished")
		mu := c.field("grpc", "csAttempt", "mu")
		done := one(c, "Done invocation in finish", callsIn(f, FieldCall(fDone)))
		c.MustFact(done, "not-finished-before", Truth(FieldLoad(fFin), false))
		c.MustFact(done, "done-non-nil", NotNil(FieldLoad(fDone)))
		set := one(c, "store finished=true", storesToField(f, fFin))
		c.ValueIs(set, set.Val, "sets-true", ConstBool(true))
		c.Dominates(set, done, "flag-set-before-Done")
		ls := locksets(f, lockOpts{})
		c.Expect(ls[set][mu], set, f, "flag-set-under-mu", "finished is set without a.mu")
		for _, rd := range readsOf(f, fFin) {
			c.Expect(ls[rd][mu], rd, f, "flag-read-under-mu", "finished is read without a.mu")
		}
		c.WhoMayMutate("csAttempt.finished", fFin, c.scope("grpc"), "grpc.csAttempt.finish")
		fPR := c.field("grpc", "csAttempt", "pickResult")
		c.WhoMayMutate("csAttempt.pickResult", fPR, c.scope("grpc"), "grpc.csAttempt.getTransport")
		gt := c.fn("grpc", "csAttempt.getTransport")
		for _, st := range storesToField(gt, fPR) {
			c.ValueIs(st, st.Val, "assigned-from-the-pick", DataDep(CallRes(Callee("grpc", "pickerWrapper.pick"), 0)))
		}
	})
	c.Ob("every-attempt-finished", "R3", "a retry finishes the previous attempt before creating the next one; finishing the stream finishes the current attempt; stream-creation failure finishes the stream", 4, func() {
		f := c.fn("grpc", "clientStream.retryLocked")
		fin := Callee("grpc", "csAttempt.finish")
		newA := Callee("grpc", "clientStream.newAttemptLocked")
		na := one(c, "newAttemptLocked in retryLocked", callsIn(f, newA))
		q := pathQuery{Fn: f, AtEntry: true, Barrier: isCallTo(fin), Target: func(in ssa.Instruction) bool { return in == ssa.Instruction(na) }}
		c.MustPass("finish-before-new-attempt(first-iteration)", q, na)
		q2 := pathQuery{Fn: f, Starts: []ssa.Instruction{na}, Barrier: isCallTo(fin), Target: func(in ssa.Instruction) bool { return in == ssa.Instruction(na) }}
		c.MustPass("finish-before-new-attempt(next-iterations)", q2, na)
		// the attempt finished is the one that will be replaced
		fc := one(c, "attempt.finish in retryLocked", callsIn(f, fin))
		c.Expect(SomeOrigin(ParamV("attempt"))(fc.Common().Args[0]), fc, f, "finishes-current-attempt", "retryLocked finishes something else than the failed attempt")
		cf := c.fn("grpc", "clientStream.finish")
		fAtt := c.field("grpc", "clientStream", "attempt")
		afs := callsIn(cf, fin)
		if c.Expect(len(afs) == 1, nil, cf, "stream-finish-finishes-attempt", "clientStream.finish does not finish the current attempt exactly once") {
			c.ArgIs(afs[0], 0, "finishes-cs.attempt", FieldLoad(fAtt))
			fFin := c.field("grpc", "clientStream", "finished")
			c.MustFact(afs[0], "stream-not-finished-before", Truth(FieldLoad(fFin), false))
		}
		wr := c.fn("grpc", "clientStream.withRetry")
		for _, nc := range callsIn(wr, newA) {
			// on error: cs.finish(err) before returning
			bl := blocksWhere(wr, NotNil(CallRes(newA, 1)))
			found := false
			for _, b := range bl {
				for _, in := range b.Instrs {
					if isCallTo(Callee("grpc", "clientStream.finish"))(in) {
						found = true
					}
				}
			}
			c.Expect(found, nc, wr, "creation-failure-finishes-stream", "a failed first attempt does not finish the stream")
		}
	})
	c.ObThorough("wrappers-chain", "R12", "sibling cross-check over the whole module: every closure stored into PickResult.Done that captured the previous Done invokes it on every path (unless it is nil); Done is invoked as a field nowhere else", 5, func() {
		var allowed []string
		allowed = append(allowed, "grpc.pickerWrapper.pick", "grpc.csAttempt.finish")
		for _, f := range c.P.AllFuncs() {
			if excludedPkg(f) {
				continue
			}
			for _, ci := range callsIn(f, FieldCall(fDone)) {
				c.inst("Done field call <- " + c.siteStr(ci))
				name := shortName(topFunc(f))
				ok := false
				for _, a := range allowed {
					if a == name {
						ok = true
					}
				}
				// a wrapper closure that itself is stored into a Done field may call the previous Done through the field of a captured copy
				if !ok && f.Parent() != nil && closureStoredIntoDone(f, fDone) {
					ok = true
				}
				if !ok {
					c.violate(ci, f, "done-callers-module", "PickResult.Done is invoked outside the picker wrapper / attempt finish / a Done wrapper", nil)
				}
			}
			for _, st := range storesToField(f, fDone) {
				mc, ok := st.Val.(*ssa.MakeClosure)
				if !ok {
					continue
				}
				cl := mc.Fn.(*ssa.Function)
				// which free variables hold the previous Done?
				for i, b := range mc.Bindings {
					prev := false
					if al, ok := b.(*ssa.Alloc); ok {
						for _, s := range storesTo(al) {
							if FieldLoad(fDone)(s.Val) {
								prev = true
							}
						}
					} else if FieldLoad(fDone)(b) {
						prev = true
					}
					if !prev {
						continue
					}
					fv := cl.FreeVars[i]
					isFV := func(v ssa.Value) bool {
						v = strip(v)
						if u, ok := v.(*ssa.UnOp); ok {
							return u.X == fv
						}
						return v == fv
					}
					q := pathQuery{Fn: cl, AtEntry: true, Barrier: isCallTo(ValueCall(isFV)), Target: isReturn,
						EdgeBlock: func(from, to *ssa.BasicBlock) bool {
							_, ok := hasFact(edgeFacts(from, to), IsNil(isFV))
							return ok
						}}
					c.MustPass("wrapper-chains-to-previous-Done", q, st)
				}
			}
		}
	})
}

func closureStoredIntoDone(cl *ssa.Function, fDone interface{ Name() string }) bool {
	for _, b := range cl.Parent().Blocks {
		for _, in := range b.Instrs {
			if st, ok := in.(*ssa.Store); ok {
				if mc, ok := st.Val.(*ssa.MakeClosure); ok && mc.Fn == cl {
					if fa, ok := st.Addr.(*ssa.FieldAddr); ok && fieldOfAddr(fa).Name() == fDone.Name() {
						return true
					}
				}
			}
		}
	}
	return false
}
