package main

import (
	"go/constant"
	"go/token"
	"go/types"

	"golang.org/x/tools/go/ssa"
)

const lrs = "internal/xds/clients/lrsclient"
const cimpl = "internal/xds/balancer/clusterimpl"

func init() {
	register(&PropDef{
		ID:    "C50",
		Pkgs:  []string{lrs, cimpl},
		Claim: "Decides the structural part: the request counters and drop counters of the load store are touched only through sync/atomic (no plain load or store through those pointers); every read-that-clears is one atomic swap with 0 (never load-then-store), and the in-progress counter is only loaded; a started call increments in-progress and issued; a finished call decrements in-progress and increments exactly one of succeeded/errored chosen by err==nil; server-load sums are updated and cleared inside one critical section; the cluster picker pairs CallStarted with a CallFinished inside the Done callback it installs. A counter entry is created exactly after a missed lookup, per-category drops are recorded exactly for named categories, and the snapshot's bookkeeping mutexes are balanced. The cluster picker's done hook reports server load only with a report present, per named metric, to the locality's store.",
		NotDecided:  []string{"equality of the reported totals with the true event counts over all interleavings of reports and RPC events (history property)", "report interval timing"},
		Assumptions: []string{"sync/atomic and sync.Map semantics", "Done runs exactly once (decided under C23)"},
		Technique:   "static analysis: access-discipline check over all uses of the counter pointers in go/ssa, dominating guards, must-pass-through, must-lockset",
		Run:         c50,
	})
}

func c50(c *Ctx) {
	cells := []string{"succeeded", "errored", "issued", "inProgress"}
	cellVar := map[string]*types.Var{}
	for _, n := range cells {
		cellVar[n] = c.field(lrs, "rpcCountData", n)
	}
	isAtomic := func(call *ssa.CallCommon) (string, bool) {
		f := calleeFunc(call)
		if f == nil || f.Pkg() == nil || f.Pkg().Path() != "sync/atomic" {
			return "", false
		}
		return f.Name(), true
	}
	c.Ob("atomic-only", "R4", "every use of a counter pointer (the four request counters, and *uint64 drop counters taken out of the sync.Map) is as the address argument of a sync/atomic function; no plain dereference", 9, func() {
		for _, f := range c.scope(lrs) {
			for _, b := range f.Blocks {
				for _, in := range b.Instrs {
					v, ok := in.(ssa.Value)
					if !ok {
						continue
					}
					isCell := false
					for _, fv := range cellVar {
						if FieldLoad(fv)(v) {
							if _, isLoad := v.(*ssa.UnOp); isLoad {
								isCell = true
							}
						}
					}
					if ta, ok := v.(*ssa.TypeAssert); ok {
						if pt, ok := ta.AssertedType.(*types.Pointer); ok {
							if bt, ok := pt.Elem().(*types.Basic); ok && bt.Kind() == types.Uint64 {
								isCell = true
							}
						}
					}
					if !isCell || v.Referrers() == nil {
						continue
					}
					for _, r := range *v.Referrers() {
						if ex, ok := r.(*ssa.Extract); ok {
							_ = ex
							continue
						}
						c.inst("use of counter pointer <- " + c.siteStr(r))
						switch x := r.(type) {
						case *ssa.Call:
							if _, ok := isAtomic(&x.Call); ok && len(x.Call.Args) > 0 && x.Call.Args[0] == v {
								continue
							}
							c.violate(r, f, "non-atomic-use", "a counter pointer is passed to a non-atomic function", nil)
						case *ssa.UnOp:
							c.violate(r, f, "plain-load", "plain (non-atomic) load through a counter pointer", nil)
						case *ssa.Store:
							if x.Addr == v {
								c.violate(r, f, "plain-store", "plain (non-atomic) store through a counter pointer", nil)
							}
						case *ssa.MakeInterface, *ssa.Phi, *ssa.Return, *ssa.DebugRef:
						default:
							c.violate(r, f, "unexpected-use", "unexpected use of a counter pointer: "+instrStr(r), nil)
						}
					}
				}
			}
		}
	})
	c.Ob("swap-to-clear", "R7", "each load-and-clear accessor is a single atomic.SwapUint64(cell, 0) on its own cell whose result is returned; the in-progress accessor only loads; drops are read by SwapUint64(…,0); no atomic.StoreUint64 exists in the package", 6, func() {
		for _, n := range []string{"succeeded", "errored", "issued"} {
			name := map[string]string{"succeeded": "loadAndClearSucceeded", "errored": "loadAndClearErrored", "issued": "loadAndClearIssued"}[n]
			f := c.fn(lrs, "rpcCountData."+name)
			var at []ssa.CallInstruction
			for _, ci := range callsIn(f, func(cc *ssa.CallCommon) bool { _, ok := isAtomic(cc); return ok }) {
				at = append(at, ci)
			}
			sw := one(c, "atomic call in "+name, at)
			nm, _ := isAtomic(sw.Common())
			c.Expect(nm == "SwapUint64", sw, f, "is-swap", "the read-and-clear is "+nm+", not a single SwapUint64")
			c.ArgIs(sw, 0, "own-cell", FieldLoad(cellVar[n]))
			c.ArgIs(sw, 1, "swap-with-zero", ConstInt(0))
			for _, r := range returnsOf(f) {
				c.ValueIs(r, r.Results[0], "returns-swapped-value", func(v ssa.Value) bool { return v == sw.Value() })
			}
		}
		lp := c.fn(lrs, "rpcCountData.loadInProgress")
		for _, ci := range callsIn(lp, func(cc *ssa.CallCommon) bool { _, ok := isAtomic(cc); return ok }) {
			nm, _ := isAtomic(ci.Common())
			c.Expect(nm == "LoadUint64", ci, lp, "in-progress-not-cleared", "in-progress is modified while being read")
		}
		for _, f := range c.scope(lrs) {
			for _, ci := range callsIn(f, func(cc *ssa.CallCommon) bool { n, ok := isAtomic(cc); return ok && n == "StoreUint64" }) {
				c.Expect(false, ci, f, "no-atomic-store", "atomic.StoreUint64 in the load store (load-then-store can lose increments)")
			}
		}
		st := c.fn(lrs, "PerClusterReporter.stats")
		nsw := 0
		for _, ci := range callsInTree(st, CalleeX("sync/atomic", "SwapUint64")) {
			nsw++
			c.ArgIs(ci, 1, "drops-swap-with-zero", ConstInt(0))
		}
		c.Expect(nsw == 1, nil, st, "drops-read-by-swap", "drop counters are not read by exactly one SwapUint64 in stats()")
		for _, ci := range callsInTree(st, CalleeX("sync/atomic", "LoadUint64")) {
			c.Expect(false, ci, st, "no-load-in-stats", "stats() loads a counter without clearing it atomically")
		}
	})
	c.Ob("report-conservation", "R3", "snapshot: once a locality's counters or server-load samples have been read-and-cleared, every path to the end of that locality's visit stores the locality entry into the report, except paths on which the cleared value was tested to be zero (nothing cleared is dropped)", 4, func() {
		st := c.fn(lrs, "PerClusterReporter.stats")
		var loc *ssa.Function
		for _, a := range st.AnonFuncs {
			if len(callsIn(a, Callee(lrs, "rpcCountData.loadAndClearSucceeded"))) == 1 {
				loc = a
			}
		}
		if loc == nil {
			panic(missingStep{"no per-locality closure reading the counters in stats()"})
		}
		fLS := c.field(lrs, "loadData", "localityStats")
		insert := func(in ssa.Instruction) bool {
			mu, ok := in.(*ssa.MapUpdate)
			return ok && FieldLoad(fLS)(mu.Map)
		}
		c.Expect(len(instrsWhere(loc, insert)) == 1, nil, loc, "one-insertion", "expected exactly one insertion of the locality entry into the report")
		for _, name := range []string{"loadAndClearSucceeded", "loadAndClearErrored", "loadAndClearIssued"} {
			cm := Callee(lrs, "rpcCountData."+name)
			call := one(c, name+" in the locality closure", callsIn(loc, cm))
			q := pathQuery{Fn: loc, Starts: []ssa.Instruction{call}, Barrier: insert, Target: isReturn,
				EdgeBlock: func(from, to *ssa.BasicBlock) bool {
					_, ok := hasFact(edgeFacts(from, to), CmpInt(CallRes(cm, 0), token.EQL, 0))
					return ok
				}}
			c.MustPass(name+"-value-reaches-report", q, call)
		}
		// server loads are cleared by the nested Range; nothing may skip the insertion afterwards
		var rng ssa.CallInstruction
		for _, ci := range callsIn(loc, CalleeX("sync", "Map.Range")) {
			if cl := funcOfValue(ci.Common().Args[1]); cl != nil && len(callsIn(cl, Callee(lrs, "rpcLoadData.loadAndClear"))) == 1 {
				rng = ci
			}
		}
		if rng == nil {
			panic(missingStep{"no nested Range that reads-and-clears the server loads"})
		}
		c.MustPass("cleared-server-loads-reach-report", pathQuery{Fn: loc, Starts: []ssa.Instruction{rng}, Barrier: insert, Target: isReturn}, rng)
		// inside the nested closure: a cleared sample with count != 0 is stored
		cl := funcOfValue(rng.Common().Args[1])
		lc := one(c, "loadAndClear in the server-load closure", callsIn(cl, Callee(lrs, "rpcLoadData.loadAndClear")))
		isMU := func(in ssa.Instruction) bool { _, ok := in.(*ssa.MapUpdate); return ok }
		q := pathQuery{Fn: cl, Starts: []ssa.Instruction{lc}, Barrier: isMU, Target: isReturn,
			EdgeBlock: func(from, to *ssa.BasicBlock) bool {
				_, ok := hasFact(edgeFacts(from, to), CmpInt(CallRes(Callee(lrs, "rpcLoadData.loadAndClear"), 1), token.EQL, 0))
				return ok
			}}
		c.MustPass("non-empty-sample-is-reported", q, lc)
		// drops: a non-zero swapped value is added to the total
		var dcl *ssa.Function
		for _, a := range st.AnonFuncs {
			if len(callsIn(a, CalleeX("sync/atomic", "SwapUint64"))) == 1 {
				dcl = a
			}
		}
		if dcl != nil {
			sw := callsIn(dcl, CalleeX("sync/atomic", "SwapUint64"))[0]
			fTD := c.field(lrs, "loadData", "totalDrops")
			addTotal := func(in ssa.Instruction) bool { s, ok := in.(*ssa.Store); return ok && FieldAddrOf(fTD)(s.Addr) }
			q := pathQuery{Fn: dcl, Starts: []ssa.Instruction{sw}, Barrier: addTotal, Target: isReturn,
				EdgeBlock: func(from, to *ssa.BasicBlock) bool {
					_, ok := hasFact(edgeFacts(from, to), CmpInt(CallRes(CalleeX("sync/atomic", "SwapUint64"), 0), token.EQL, 0))
					return ok
				}}
			c.MustPass("non-zero-drops-reach-total", q, sw)
		} else {
			c.Expect(false, nil, st, "drops-closure", "no closure reading the drop counters")
		}
	})
	c.Ob("events", "R12", "incr/decr accessors add +1/-1 to their own cell; CallStarted bumps in-progress and issued before every return; CallFinished (entry found) decrements in-progress and bumps exactly one of succeeded (err == nil) / errored (err != nil)", 9, func() {
		acc := map[string]struct {
			cell string
			d    int64
		}{"incrSucceeded": {"succeeded", 1}, "incrErrored": {"errored", 1}, "incrIssued": {"issued", 1}, "incrInProgress": {"inProgress", 1}, "decrInProgress": {"inProgress", -1}}
		for _, name := range sortedKeys(acc) {
			a := acc[name]
			f := c.fn(lrs, "rpcCountData."+name)
			add := one(c, "AddUint64 in "+name, callsIn(f, CalleeX("sync/atomic", "AddUint64")))
			c.ArgIs(add, 0, name+"-own-cell", FieldLoad(cellVar[a.cell]))
			if a.d == 1 {
				c.ArgIs(add, 1, name+"-plus-one", ConstInt(1))
			} else {
				c.ArgIs(add, 1, name+"-minus-one", func(v ssa.Value) bool {
					k := constOf(v)
					return k != nil && k.Value != nil && k.Value.ExactString() == "18446744073709551615"
				})
			}
		}
		m := func(n string) CM { return Callee(lrs, "rpcCountData."+n) }
		cs := c.fn(lrs, "PerClusterReporter.CallStarted")
		ip := one(c, "incrInProgress in CallStarted", callsIn(cs, m("incrInProgress")))
		is := one(c, "incrIssued in CallStarted", callsIn(cs, m("incrIssued")))
		for _, r := range returnsOf(cs) {
			c.Expect(instrDominates(ip, r) && instrDominates(is, r), r, cs, "started-counts-both", "a return of CallStarted is not preceded by both increments")
		}
		// the counters bumped are those of an entry that exists: a new entry is created exactly when the lookup missed
		nLOS := 0
		for _, g := range c.scope(lrs) {
			for _, los := range callsIn(g, CalleeX("sync", "Map.LoadOrStore")) {
				if len(callsIn(g, CalleeX("sync", "Map.Load"))) == 0 {
					continue
				}
				nLOS++
				c.MustFact(los, "entry-created-only-after-a-miss", Truth(CallRes(CalleeX("sync", "Map.Load"), 1), false))
				for _, st := range edgeTargetsWhere(g, Truth(CallRes(CalleeX("sync", "Map.Load"), 1), false)) {
					c.MustPass("missing-entry-always-created", pathQuery{Fn: g, StartBlocks: []*ssa.BasicBlock{st}, Barrier: func(in ssa.Instruction) bool { return in == los.(ssa.Instruction) }, Target: func(in ssa.Instruction) bool {
						_, isTA := in.(*ssa.TypeAssert)
						return isTA || isReturn(in)
					}}, los)
				}
			}
		}
		c.Expect(nLOS >= 2, nil, nil, "create-on-miss-sites", "fewer create-on-miss sites than on the reviewed tree")
		// drops: a category entry is written exactly for a non-empty category (uncategorised drops count only in the total)
		stf := c.fn(lrs, "PerClusterReporter.stats")
		nCat := 0
		for _, g := range append([]*ssa.Function{stf}, stf.AnonFuncs...) {
			for _, in := range instrsWhere(g, func(in ssa.Instruction) bool {
				mu, ok := in.(*ssa.MapUpdate)
				return ok && FieldLoad(c.field(lrs, "loadData", "drops"))(mu.Map)
			}) {
				nCat++
				mu := in.(*ssa.MapUpdate)
				c.MustFact(in, "category-recorded-only-when-named", Cmp(func(v ssa.Value) bool { return v == mu.Key }, token.NEQ, ConstStr("")))
				c.EnteredOnlyWhenExcept(in.Block().Succs[0], "category-skipped-only-when-unnamed", func(p *ssa.BasicBlock) bool { return p == in.Block() }, Cmp(func(v ssa.Value) bool { return v == mu.Key }, token.EQL, ConstStr("")))
			}
		}
		c.Expect(nCat == 1, nil, stf, "category-drop-site", "expected one per-category drop record")
		// snapshot bookkeeping lock is released on every exit
		for _, t := range []string{"PerClusterReporter", "LoadStore"} {
			muv := c.field(lrs, t, "mu")
			for _, g := range c.scope(lrs) {
				c.lockBalance(t+".mu", muv, g)
			}
		}
		cf := c.fn(lrs, "PerClusterReporter.CallFinished")
		dp := one(c, "decrInProgress in CallFinished", callsIn(cf, m("decrInProgress")))
		su := one(c, "incrSucceeded in CallFinished", callsIn(cf, m("incrSucceeded")))
		er := one(c, "incrErrored in CallFinished", callsIn(cf, m("incrErrored")))
		c.MustFact(su, "succeeded-iff-nil-error", IsNil(ParamV("err")))
		c.MustFact(er, "errored-iff-error", NotNil(ParamV("err")))
		c.Dominates(dp, su, "decrement-on-success-path")
		c.Dominates(dp, er, "decrement-on-error-path")
		q := pathQuery{Fn: cf, Starts: []ssa.Instruction{dp}, Barrier: orInstr(isCallTo(m("incrSucceeded")), isCallTo(m("incrErrored"))), Target: isReturn}
		c.MustPass("finished-always-classified", q, dp)
		// the not-found early return happens only when the map has no entry
		c.MustFact(dp, "entry-found", Truth(CallRes(CalleeX("sync", "Map.Load"), 1), true))
	})
	c.Ob("load-data", "R4", "server-load sum and count are accessed only under the entry's mutex; loadAndClear zeroes both in the critical section in which it reads them", 6, func() {
		fSum := c.field(lrs, "rpcLoadData", "sum")
		fCnt := c.field(lrs, "rpcLoadData", "count")
		mu := c.field(lrs, "rpcLoadData", "mu")
		c.GuardedBy(GuardSpec{Label: "rpcLoadData", Mu: mu, Fields: []*types.Var{fSum, fCnt}, Scope: c.scope(lrs)})
		lc := c.fn(lrs, "rpcLoadData.loadAndClear")
		locks := callsIn(lc, CalleeX("sync", "Mutex.Lock"))
		c.Expect(len(locks) == 1, nil, lc, "one-critical-section", "loadAndClear does not use exactly one critical section")
		for _, fv := range []*types.Var{fSum, fCnt} {
			st := one(c, "zeroing store of "+fv.Name(), storesToField(lc, fv))
			c.ValueIs(st, st.Val, fv.Name()+"-zeroed", func(v ssa.Value) bool { return isZeroConst(strip(v)) })
			for _, rd := range readsOf(lc, fv) {
				c.Expect(instrDominates(rd, st), rd, lc, "read-before-zero", "the value is read after it was cleared")
			}
		}
		ad := c.fn(lrs, "rpcLoadData.add")
		stc := one(c, "count update in add", storesToField(ad, fCnt))
		c.ValueIs(stc, stc.Val, "count-plus-one", BinOpV(token.ADD, FieldLoad(fCnt), ConstInt(1)))
		sts := one(c, "sum update in add", storesToField(ad, fSum))
		c.ValueIs(sts, sts.Val, "sum-plus-value", BinOpV(token.ADD, FieldLoad(fSum), ParamV("v")))
	})
	c.Ob("picker-events", "R12", "cluster picker: CallStarted is called only after a successful child pick with a load store present, and on every path from it to the return a Done closure is installed that calls CallFinished (same locality) on all its paths and chains the previous Done", 5, func() {
		f := c.fn(cimpl, "picker.Pick")
		fLS := c.field(cimpl, "picker", "loadStore")
		fDone := c.field("balancer", "PickResult", "Done")
		started := one(c, "CallStarted in Pick", callsIn(f, Callee(cimpl, "loadReporter.CallStarted")))
		c.MustFact(started, "child-pick-ok", IsNil(CallRes(Callee("balancer", "Picker.Pick"), 1)))
		c.MustFact(started, "load-store-present", NotNil(FieldLoad(fLS)))
		var doneCl *ssa.Function
		var doneStore *ssa.Store
		for _, st := range storesToField(f, fDone) {
			if cl := funcOfValue(st.Val); cl != nil && len(callsIn(cl, Callee(cimpl, "loadReporter.CallFinished"))) > 0 {
				doneCl, doneStore = cl, st
			}
		}
		if doneCl == nil {
			panic(missingStep{"no Done closure calling CallFinished is installed in Pick"})
		}
		q := pathQuery{Fn: f, Starts: []ssa.Instruction{started}, Barrier: func(in ssa.Instruction) bool { return in == ssa.Instruction(doneStore) }, Target: isReturn}
		c.MustPass("started-implies-finish-installed", q, started)
		fin := one(c, "CallFinished in the Done closure", callsIn(doneCl, Callee(cimpl, "loadReporter.CallFinished")))
		q2 := pathQuery{Fn: doneCl, AtEntry: true, Barrier: func(in ssa.Instruction) bool { return in == ssa.Instruction(fin) }, Target: isReturn}
		c.MustPass("done-always-reports-finish", q2, fin)
		c.Expect(sameValue(fin.Common().Args[0], started.Common().Args[0]) || sameCaptured(fin.Common().Args[0], started.Common().Args[0], doneStore), fin, doneCl, "same-locality", "CallFinished is reported for a different locality than CallStarted")
		// server loads carried by the finished call: dereferenced only when a non-nil ORCA report is present; the early
		// return is taken only without one; each fixed utilisation is recorded exactly under its own switch; named metrics
		// are walked completely
		sl := callsIn(doneCl, Callee(cimpl, "loadReporter.CallServerLoad"))
		if c.Expect(len(sl) >= 5, fin, doneCl, "server-load-sites", "fewer server-load recording sites than on the reviewed tree") {
			load := func(v ssa.Value) bool {
				e, ok := v.(*ssa.Extract)
				if !ok || e.Index != 0 {
					return false
				}
				ta, ok := e.Tuple.(*ssa.TypeAssert)
				return ok && FieldLoad(c.field("balancer", "DoneInfo", "ServerLoad"))(ta.X)
			}
			okLoad := func(v ssa.Value) bool {
				e, ok := v.(*ssa.Extract)
				if !ok || e.Index != 1 {
					return false
				}
				ta, ok := e.Tuple.(*ssa.TypeAssert)
				return ok && FieldLoad(c.field("balancer", "DoneInfo", "ServerLoad"))(ta.X)
			}
			for _, ci := range sl {
				c.MustFact(ci, "server-load-only-from-a-report", NotNil(load))
				c.MustFact(ci, "server-load-only-from-an-ORCA-report", Truth(okLoad, true))
				c.Expect(sameValue(ci.Common().Args[0], fin.Common().Args[0]) || ci.Common().Args[0] == fin.Common().Args[0] || sameCaptured(ci.Common().Args[0], started.Common().Args[0], doneStore), ci, doneCl, "server-load-for-the-call's-locality", "a server load is recorded for a locality other than the call's")
			}
			for _, r := range returnsOf(doneCl) {
				if r.Block() == doneCl.Recover {
					continue
				}
				reachedByLoad := false
				for _, ci := range sl {
					if reachableBlocks(ci.Block())[r.Block()] {
						reachedByLoad = true
					}
				}
				if !reachedByLoad {
					c.EnteredOnlyWhen(r.Block(), "loads-skipped-only-without-a-report", IsNil(load), Truth(okLoad, false))
				}
			}
			m := func(n string) FM { return Truth(FieldLoad(c.field("internal/xds/bootstrap", "LoadReportingMetrics", n)), true) }
			_ = m
			for _, ci := range sl {
				name := constOf(ci.Common().Args[1])
				if name == nil || name.Value == nil {
					continue
				}
				switch constant.StringVal(name.Value) {
				case "cpu_utilization":
					c.MustFact(ci, "cpu-only-when-enabled", Truth(func(v ssa.Value) bool { u, ok := v.(*ssa.UnOp); return ok && fieldNameOfLoad(u) == "CPUUtilization" }, true))
					c.ArgIs(ci, 2, "cpu-value", func(v ssa.Value) bool { u, ok := v.(*ssa.UnOp); return ok && fieldNameOfLoad(u) == "CpuUtilization" })
				case "mem_utilization":
					c.MustFact(ci, "mem-only-when-enabled", Truth(func(v ssa.Value) bool { u, ok := v.(*ssa.UnOp); return ok && fieldNameOfLoad(u) == "MemUtilization" }, true))
					c.ArgIs(ci, 2, "mem-value", func(v ssa.Value) bool { u, ok := v.(*ssa.UnOp); return ok && fieldNameOfLoad(u) == "MemUtilization" })
				case "application_utilization":
					c.MustFact(ci, "app-only-when-enabled", Truth(func(v ssa.Value) bool { u, ok := v.(*ssa.UnOp); return ok && fieldNameOfLoad(u) == "ApplicationUtilization" }, true))
					c.ArgIs(ci, 2, "app-value", func(v ssa.Value) bool { u, ok := v.(*ssa.UnOp); return ok && fieldNameOfLoad(u) == "ApplicationUtilization" })
				}
			}
			c.NoEarlyExit(doneCl, AnyV, "named-metrics-walked-completely")
		}
		// with a load store present a started call is always reported: CallStarted may be skipped after a
		// successful child pick only where the store is absent
		pk := one(c, "child Pick", callsIn(f, Callee("balancer", "Picker.Pick")))
		perr := ExtractOf(func(v ssa.Value) bool { return v == pk.Value() }, 1)
		c.MustPass("successful-pick-is-reported-as-started", pathQuery{Fn: f, Starts: []ssa.Instruction{pk}, Barrier: func(in ssa.Instruction) bool { return in == ssa.Instruction(started) }, Target: func(in ssa.Instruction) bool {
			r, ok := in.(*ssa.Return)
			return ok && ConstNil(r.Results[1])
		}, EdgeBlock: func(from, to *ssa.BasicBlock) bool {
			fs := edgeFacts(from, to)
			_, a := hasFact(fs, IsNil(FieldLoad(fLS)))
			_, b := hasFact(fs, NotNil(perr))
			return a || b
		}}, pk)
		// every drop (by category, by circuit breaking) is reported as a drop when a store is present
		drops := callsIn(f, Callee(cimpl, "loadReporter.CallDropped"))
		c.Expect(len(drops) == 2, nil, f, "two-drop-reports", "expected the category drop and the circuit-breaker drop to be reported")
		isDropRep := func(in ssa.Instruction) bool {
			for _, d := range drops {
				if in == ssa.Instruction(d) {
					return true
				}
			}
			return false
		}
		for _, arm := range []struct {
			l  string
			fm FM
		}{
			{"category-drop", Truth(CallRes(Callee(cimpl, "dropper.drop"), 0), true)},
			{"circuit-breaker-drop", NotNil(CallRes(Callee("internal/xds/xdsclient", "ClusterRequestsCounter.StartRequest"), 0))},
		} {
			st := edgeTargetsWhere(f, arm.fm)
			if c.Expect(len(st) == 1, nil, f, arm.l+"-arm", "drop arm not found") {
				c.MustPass(arm.l+"-is-reported", pathQuery{Fn: f, StartBlocks: st, Barrier: isDropRep, Target: isReturn,
					EdgeBlock: func(from, to *ssa.BasicBlock) bool {
						_, a := hasFact(edgeFacts(from, to), IsNil(FieldLoad(fLS)))
						return a
					}}, nil)
			}
		}
		for _, d := range drops {
			if ConstStr("")(d.Common().Args[0]) {
				c.MustFact(d, "uncategorised-drop-is-the-circuit-breaker's", NotNil(CallRes(Callee("internal/xds/xdsclient", "ClusterRequestsCounter.StartRequest"), 0)))
			} else {
				c.MustFact(d, "category-drop-only-when-dropped", Truth(CallRes(Callee(cimpl, "dropper.drop"), 0), true))
				c.ArgIs(d, 0, "reports-the-dropping-category", FieldLoad(c.field(cimpl, "dropper", "category")))
			}
		}
		// the previous Done is chained
		for _, st := range storesToField(f, fDone) {
			cl := funcOfValue(st.Val)
			if cl == nil {
				continue
			}
			chained := false
			for _, b := range cl.Blocks {
				for _, in := range b.Instrs {
					if call, ok := in.(*ssa.Call); ok && call.Call.StaticCallee() == nil && !call.Call.IsInvoke() {
						if u, isU := call.Call.Value.(*ssa.UnOp); isU {
							if _, isFV := u.X.(*ssa.FreeVar); isFV {
								chained = true
								fvX := u.X
								c.MustFact(call, "previous-Done-called-only-if-set", NotNil(func(v ssa.Value) bool { l, ok := v.(*ssa.UnOp); return ok && l.X == fvX }))
							}
						}
					}
				}
			}
			c.Expect(chained, st, f, "previous-Done-chained", "an installed Done callback does not call the one it replaces")
		}
		// drops are reported as drops, not as started calls
		for _, dr := range callsIn(f, Callee(cimpl, "loadReporter.CallDropped")) {
			c.Expect(!reachableBlocks(dr.Block())[started.Block()], dr, f, "dropped-not-started", "a dropped RPC is also counted as started")
		}
	})
}

// sameCaptured: value a inside a closure is a load of a free variable bound,
// at the MakeClosure stored by st, to the cell that b was loaded from.
func sameCaptured(a, b ssa.Value, st *ssa.Store) bool {
	mc, ok := st.Val.(*ssa.MakeClosure)
	if !ok {
		return false
	}
	ua, ok := strip(a).(*ssa.UnOp)
	if !ok {
		return false
	}
	fv, ok := ua.X.(*ssa.FreeVar)
	if !ok {
		return false
	}
	cl := mc.Fn.(*ssa.Function)
	for i, x := range cl.FreeVars {
		if x == fv {
			bind := mc.Bindings[i]
			if ub, ok := b.(*ssa.UnOp); ok && ub.X == bind {
				return true
			}
			if al, ok := bind.(*ssa.Alloc); ok {
				for _, s := range storesTo(al) {
					if s.Val == b || strip(s.Val) == strip(b) {
						return true
					}
				}
			}
		}
	}
	return false
}

// fieldNameOfLoad: the name of the struct field that u loads (u = *(&x.f)), or "".
func fieldNameOfLoad(u *ssa.UnOp) string {
	fa, ok := u.X.(*ssa.FieldAddr)
	if !ok {
		return ""
	}
	return fieldOfAddr(fa).Name()
}
