package main

import (
	"go/token"

	"golang.org/x/tools/go/ssa"
)

func init() {
	register(&PropDef{
		ID:    "C32",
		Pkgs:  []string{"grpc"},
		Claim: "Decides the structural part: the transport a pick returns comes from the subchannel's ready-transport accessor, on the arm where it is non-nil, and that accessor hands out the transport only when the subchannel state is READY, read under the subchannel mutex; the picker consulted is the one of the generation loaded in the same loop iteration, and the loop blocks exactly when that generation has no picker or was already tried; replacing the picker (update, reset, close) swaps the generation first and then closes the old generation's channel so blocked picks re-evaluate; pick errors are mapped as documented (no-subconn -> retry, status error -> drop with that status after the control-plane code restriction, other -> wait or UNAVAILABLE by fail-fast).",
		NotDecided:  []string{"that a subchannel stays READY between the pick and the first byte written (inherent race, handled by transparent retry)", "LB policies outside the module returning foreign SubConns"},
		Assumptions: []string{"atomic.Pointer Swap/Load"},
		Technique:   "static analysis: value-origin of returned values, dominating guards on go/ssa branch facts, must-lockset, ordering (dominance), constant-flow of status codes",
		Run:         c32,
	})
}

func c32(c *Ctx) {
	c.Ob("ready-only", "R2", "the ready-transport accessor returns the subchannel's transport only on state == READY, with the subchannel mutex held, and nil otherwise; both users (picker wrapper, direct subchannel streams) go through it", 4, func() {
		f := c.fn("grpc", "addrConn.getReadyTransport")
		fTr := c.field("grpc", "addrConn", "transport")
		fSt := c.field("grpc", "addrConn", "state")
		mu := c.field("grpc", "addrConn", "mu")
		ready := ConstOfObj(c.konst("connectivity", "Ready"))
		ls := locksets(f, lockOpts{})
		n := 0
		for _, r := range returnsOf(f) {
			if r.Block() == f.Recover {
				continue
			}
			v := strip(r.Results[0])
			if ConstNil(v) {
				continue
			}
			n++
			c.ValueIs(r, v, "returns-the-subchannel-transport", FieldLoad(fTr))
			c.MustFact(r, "only-when-READY", Cmp(FieldLoad(fSt), token.EQL, ready))
		}
		c.Expect(n == 1, nil, f, "one-non-nil-return", "expected exactly one non-nil return in the ready-transport accessor")
		for _, rd := range readsOf(f, fSt) {
			c.Expect(ls[rd][mu], rd, f, "state-read-under-mu", "the state is read without the subchannel mutex")
		}
		for _, rd := range readsOf(f, fTr) {
			c.Expect(ls[rd][mu], rd, f, "transport-read-under-mu", "the transport is read without the subchannel mutex")
		}
		// the transport field is not handed to RPC paths by any other reader outside the subchannel's own lifecycle functions
		for _, fn := range c.scope("grpc") {
			top := shortName(topFunc(fn))
			for _, rd := range readsOf(fn, fTr) {
				c.inst("read of addrConn.transport <- " + c.siteStr(rd))
				switch top {
				case "grpc.addrConn.getReadyTransport", "grpc.addrConn.tearDown", "grpc.addrConn.updateAddrs", "grpc.addrConn.createTransport", "grpc.addrConn.startHealthCheck", "grpc.addrConn.securityLevelLocked", "grpc.addrConn.resetTransportAndUnlock", "grpc.addrConn.getTransport":
				default:
					c.violate(rd, fn, "transport-read-elsewhere", "addrConn.transport is read outside the READY-checking accessor and the subchannel's lifecycle functions", nil)
				}
			}
		}
	})
	c.Ob("transport-origin", "R8", "pick: the transport returned is the result of the ready-transport accessor of the picked subchannel on its non-nil arm; the subchannel is the one in this iteration's pick result", 3, func() {
		f := c.fn("grpc", "pickerWrapper.pick")
		grt := CallRes(Callee("grpc", "addrConn.getReadyTransport"), 0)
		for _, r := range successReturns(f, 1) {
			if r.Block() == f.Recover {
				continue
			}
			c.MustFact(r, "transport-non-nil", NotNil(grt))
			c.Expect(DataDep(grt)(r.Results[0]), r, f, "transport-from-accessor", "the returned transport does not come from the READY-checking accessor")
		}
		g := one(c, "getReadyTransport call in pick", callsIn(f, Callee("grpc", "addrConn.getReadyTransport")))
		c.Expect(DataDep(CallRes(Callee("balancer", "Picker.Pick"), 0))(g.Common().Args[0]), g, f, "subchannel-from-this-pick", "the subchannel asked for its transport is not the one the picker returned")
		// direct subchannel streams (health, ORCA) use the accessor too
		ns := c.fn("grpc", "acBalancerWrapper.NewStream")
		c.Expect(len(callsIn(ns, Callee("grpc", "addrConn.getReadyTransport"))) == 1, nil, ns, "subchannel-streams-use-accessor", "acBalancerWrapper.NewStream does not go through the READY-checking accessor")
	})
	c.Ob("current-picker", "R8", "pick loop: the picker consulted is the picker field of the generation loaded in this iteration; the loop blocks exactly when that generation's channel is the one already waited on (no picker yet, or already tried); a closed wrapper ends the pick", 5, func() {
		f := c.fn("grpc", "pickerWrapper.pick")
		fPG := c.field("grpc", "pickerWrapper", "pickerGen")
		fPicker := c.field("grpc", "pickerGeneration", "picker")
		fCh := c.field("grpc", "pickerGeneration", "blockingCh")
		load := func(v ssa.Value) bool {
			call, ok := strip(v).(*ssa.Call)
			return ok && CalleeX("sync/atomic", "Pointer.Load")(&call.Call) && FieldAddrOf(fPG)(call.Call.Args[0])
		}
		pk := one(c, "Picker.Pick call", callsIn(f, Callee("balancer", "Picker.Pick")))
		c.Expect(FieldLoadOn(fPicker, load)(pk.Common().Value), pk, f, "picker-of-loaded-generation", "the picker consulted is not the picker of the generation loaded in this iteration")
		c.MustFact(pk, "generation-not-nil", NotNil(load))
		c.MustFact(pk, "not-the-generation-already-tried", Cmp(AnyV, token.NEQ, FieldLoadOn(fCh, load)))
		sel := one(c, "blocking select in pick", instrsWhere(f, func(in ssa.Instruction) bool { s, ok := in.(*ssa.Select); return ok && s.Blocking }))
		c.MustFact(sel, "blocks-only-on-current-generation-channel", Cmp(AnyV, token.EQL, FieldLoadOn(fCh, load)))
		// no picker -> must block: on the arm where the picker is nil, the waited-on channel is set to this
		// generation's channel, which is exactly the value the "already tried" test compares with (so that
		// test sends the call to the blocking select; the Pick call requires the two to differ, above)
		waited := func(v ssa.Value) bool { // the `ch` compared with the generation's channel at the Pick call
			for _, fc := range FactsAt(pk) {
				if fc.Kind == "cmp" && fc.Op == token.NEQ {
					if FieldLoadOn(fCh, load)(fc.Y) && fc.X == v || FieldLoadOn(fCh, load)(fc.X) && fc.Y == v {
						return true
					}
				}
			}
			return false
		}
		okNil := false
		for _, b := range f.Blocks {
			for _, in := range b.Instrs {
				ph, ok := in.(*ssa.Phi)
				if !ok || !waited(ph) {
					continue
				}
				for i, e := range ph.Edges {
					pr := ph.Block().Preds[i]
					fs := append(append([]Fact(nil), FactsAtBlock(pr)...), edgeOnlyFacts(pr, ph.Block())...)
					if _, isNilArm := hasFact(fs, IsNil(FieldLoadOn(fPicker, load))); isNilArm {
						okNil = FieldLoadOn(fCh, load)(e)
					}
				}
			}
		}
		c.Expect(okNil, pk, f, "nil-picker-blocks", "with no picker yet the pick does not arrange to block on the current generation's channel")
		for _, r := range returnsOf(f) {
			if GlobalLoad(c.konst("grpc", "ErrClientConnClosing"))(r.Results[1]) {
				c.MustFact(r, "closed-wrapper-ends-pick", IsNil(load))
			}
		}
	})
	c.Ob("swap-then-close", "R3", "updatePicker / reset / close swap in the new generation first and then close the OLD generation's channel", 3, func() {
		fPG := c.field("grpc", "pickerWrapper", "pickerGen")
		fCh := c.field("grpc", "pickerGeneration", "blockingCh")
		for _, name := range []string{"pickerWrapper.updatePicker", "pickerWrapper.reset", "pickerWrapper.close"} {
			f := c.fn("grpc", name)
			var sw ssa.CallInstruction
			for _, ci := range callsIn(f, CalleeX("sync/atomic", "Pointer.Swap")) {
				if FieldAddrOf(fPG)(ci.Common().Args[0]) {
					sw = ci
				}
			}
			if sw == nil {
				panic(missingStep{name + " does not swap the picker generation"})
			}
			cl := one(c, "close in "+name, callsIn(f, BuiltinCall("close")))
			c.ArgIs(cl, 0, "closes-old-generation-channel", FieldLoadOn(fCh, func(v ssa.Value) bool { return v == sw.Value() }))
			c.Dominates(sw, cl, "swap-before-close")
		}
		up := c.fn("grpc", "pickerWrapper.updatePicker")
		for _, st := range storesToField(up, c.field("grpc", "pickerGeneration", "picker")) {
			c.ValueIs(st, st.Val, "new-generation-carries-new-picker", ParamV("p"))
		}
	})
	c.Ob("error-arms", "R7", "pick errors: ErrNoSubConnAvailable -> next iteration; a status error -> returned as a drop after the control-plane code restriction (restricted codes become INTERNAL); any other error -> wait when not fail-fast, else UNAVAILABLE", 4, func() {
		f := c.fn("grpc", "pickerWrapper.pick")
		perr := CallRes(Callee("balancer", "Picker.Pick"), 1)
		noSC := GlobalLoad(c.konst("balancer", "ErrNoSubConnAvailable"))
		for _, r := range returnsOf(f) {
			if r.Block() == f.Recover {
				continue
			}
			if c.HasFact(r, NotNil(perr)) {
				c.Unreachable(r, "no-subconn-never-fails-rpc", Cmp(perr, token.EQL, noSC))
			}
		}
		c.statusCodeIn(blocksWhere(f, Truth(CallRes(Callee("internal/status", "IsRestrictedControlPlaneCode"), 0), true)), f, "restricted-code->Internal", "Internal")
		isStatus := Truth(CallRes(Callee("status", "FromError"), 1), true)
		nDrop := 0
		for _, r := range returnsOf(f) {
			if c.HasFact(r, isStatus) && c.HasFact(r, NotNil(perr)) {
				nDrop++
				_, ok := stripFloatConv(r.Results[1]).(*ssa.MakeInterface)
				c.Expect(ok, r, f, "status-error-returned-as-drop", "a status error from the picker is not returned as a drop error")
			}
		}
		c.Expect(nDrop == 1, nil, f, "one-drop-return", "expected one return for status errors from the picker")
		c.statusCodeIn(blocksWhere(f, Truth(CallRes(Callee("status", "FromError"), 1), false), Truth(ParamV("failfast"), true)), f, "other-error+failfast->Unavailable", "Unavailable")
		for _, r := range returnsOf(f) {
			if c.HasFact(r, Truth(CallRes(Callee("status", "FromError"), 1), false)) {
				c.MustFact(r, "non-status-error-fails-only-failfast", Truth(ParamV("failfast"), true))
			}
		}
	})
}
